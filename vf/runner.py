"""Shared runner: tiers, seed, parallel map, violations, known findings, replay artefacts, evidence.

Every check module in vf/props exposes  run(ctx) -> None  and  replay(ctx, data) -> bool (True = still violates).
A check reports through ctx:
    ctx.count(...)                 counters that go to evidence
    ctx.violation(sig, what, replay)   sig: dict of short strings identifying the failure (matched against known findings)
    ctx.finish(coverage=..., assumptions=...)
Exit codes: 0 held (possibly KNOWN-FINDING lines), 1 unlisted violation(s), 2 harness error.
"""
import os, sys, json, time, hashlib, re, collections, traceback, signal, warnings

ROOT = os.path.dirname(os.path.dirname(os.path.abspath(__file__)))
REPO = os.environ.get("VERIF_REPO", "/repo")
GUARD = "FFERFLO_EINX_VERIF"
NPROC = int(os.environ.get("VERIF_NPROC", "16"))


def setup_env():
    """Environment every check process runs under (set before einx is imported)."""
    os.environ[GUARD] = "1"
    os.environ.setdefault("PYTHONHASHSEED", "0")
    warnings.simplefilter("ignore")
    # make sure `import einx` resolves to REPO's working tree
    if REPO not in sys.path:
        sys.path.insert(0, REPO)


def reexec_with_hashseed():
    """Hash randomisation is fixed at interpreter start: re-exec once with PYTHONHASHSEED=0."""
    if os.environ.get("PYTHONHASHSEED") != "0":
        os.environ["PYTHONHASHSEED"] = "0"
        os.execv(sys.executable, [sys.executable] + sys.argv)


class Timeout(Exception):
    pass


class time_limit:
    """per-case wall-clock limit via setitimer (main thread of a worker only)"""

    def __init__(self, seconds):
        self.seconds = seconds

    def _handler(self, signum, frame):
        raise Timeout()

    def __enter__(self):
        self.old = signal.signal(signal.SIGALRM, self._handler)
        signal.setitimer(signal.ITIMER_REAL, self.seconds)

    def __exit__(self, *a):
        signal.setitimer(signal.ITIMER_REAL, 0)
        signal.signal(signal.SIGALRM, self.old)
        return False


def _pool_init(initfn):
    setup_env()
    signal.signal(signal.SIGINT, signal.SIG_IGN)
    if initfn is not None:
        initfn()


def pmap(func, items, chunksize=32, init=None, nproc=None, ordered=False):
    """Exhaustive parallel map over a finite list (16 CPU-bound workers, forked once)."""
    import multiprocessing as mp
    items = list(items)
    nproc = nproc or NPROC
    if nproc <= 1 or len(items) <= 1:
        if init is not None:
            init()
        for it in items:
            yield func(it)
        return
    ctx = mp.get_context("fork")
    with ctx.Pool(nproc, initializer=_pool_init, initargs=(init,)) as pool:
        it = pool.imap(func, items, chunksize) if ordered else pool.imap_unordered(func, items, chunksize)
        for r in it:
            yield r


def chunks(seq, n):
    seq = list(seq)
    for i in range(0, len(seq), n):
        yield seq[i:i + n]


def digest(obj):
    return hashlib.sha1(json.dumps(obj, sort_keys=True, default=repr).encode()).hexdigest()[:12]


class KnownFindings:
    def __init__(self, path=None):
        self.entries = []
        path = path or os.path.join(ROOT, "known_findings.jsonl")
        if os.path.exists(path):
            for line in open(path):
                line = line.strip()
                if line and not line.startswith("#"):
                    self.entries.append(json.loads(line))

    def match(self, pid, sig):
        """a finding matches when it is for this property, status 'known', and every field of its 'match' dict
        full-matches (regex) the corresponding field of the violation signature"""
        for e in self.entries:
            if e.get("property") != pid or e.get("status") != "known":
                continue
            m = e.get("match", {})
            if m and all(k in sig and re.fullmatch(v, str(sig[k]), re.S) for k, v in m.items()):
                return e
        return None


class Ctx:
    def __init__(self, pid, tier, seed, level):
        self.pid, self.tier, self.seed, self.level = pid, tier, seed, level
        self.t0 = time.time()
        self.counters = collections.Counter()
        self.violations = []      # unlisted
        self.known_hits = collections.OrderedDict()   # entry what -> count
        self.kf = KnownFindings()
        self.samples = []
        self.coverage = {}
        self.assumptions = []
        self.max_report = int(os.environ.get("VERIF_MAX_REPORT", "25"))
        self._seen_sig = set()

    # ------------------------------------------------------------------ reporting
    def count(self, key, n=1):
        self.counters[key] += n

    def sample(self, s, limit=12):
        if len(self.samples) < limit:
            self.samples.append(s)

    def violation(self, sig, what, replay):
        """sig: dict identifying the failing case; replay: json-able dict handed to props.<id>.replay"""
        e = self.kf.match(self.pid, sig)
        if e is not None:
            k = e["what"]
            self.known_hits[k] = self.known_hits.get(k, 0) + 1
            return False
        sk = digest(sig)
        if sk in self._seen_sig:
            return True
        self._seen_sig.add(sk)
        self.violations.append((sig, what, replay))
        return True

    def finish(self):
        wall = time.time() - self.t0
        os.makedirs(os.path.join(ROOT, "replays"), exist_ok=True)
        os.makedirs(os.path.join(ROOT, "evidence"), exist_ok=True)
        for what, n in self.known_hits.items():
            print(f"KNOWN-FINDING: property={self.pid} {what} (matched {n} explored case(s))")
        vio_samples = []
        # write out a spread over kinds first (one per kind), then the rest, up to max_report
        seen_kind, first, rest = set(), [], []
        for v in self.violations:
            k = (v[0].get("kind"), v[0].get("exc"), v[0].get("op"))
            (rest if k in seen_kind else first).append(v); seen_kind.add(k)
        self.violations = first + rest
        for i, (sig, what, replay) in enumerate(self.violations):
            if i >= self.max_report:
                break
            path = os.path.join(ROOT, "replays", f"{self.pid}-{digest([sig, replay])}.json")
            with open(path, "w") as f:
                json.dump({"property": self.pid, "sig": sig, "what": what, "replay": replay}, f, indent=1, default=repr)
            print(f"VIOLATION property={self.pid} replay={path}")
            print(f"   {what}"[:600])
            vio_samples.append({"sig": sig, "what": what[:400]})
        if len(self.violations) > self.max_report:
            print(f"   ... {len(self.violations) - self.max_report} further distinct violations not written out")
        if self.violations:
            kinds = collections.Counter("/".join(str(sig.get(k)) for k in ("kind", "exc", "op") if k in sig) for sig, _, _ in self.violations)
            print("   violations by kind:", dict(kinds))
        cov = dict(self.coverage)
        cov.setdefault("samples", self.samples if self.samples else ["(no sample recorded)"])
        cov["counters"] = dict(self.counters)
        cov["known_findings_matched"] = dict(self.known_hits)
        if vio_samples:
            cov["violation_samples"] = vio_samples
        ev = {
            "property_id": self.pid, "tier": self.tier, "seed": self.seed, "level": self.level,
            "coverage": cov, "assumptions": self.assumptions, "wall_s": round(wall, 2),
            "violations": len(self.violations),
        }
        with open(os.path.join(ROOT, "evidence", f"{self.pid}.json"), "w") as f:
            json.dump(ev, f, indent=1, default=repr)
        short = {k: v for k, v in cov.items() if isinstance(v, (int, float, bool))}
        print(f"[{self.pid}] tier={self.tier} seed={self.seed} wall={wall:.1f}s violations={len(self.violations)} "
              f"known={sum(self.known_hits.values())} coverage={short}")
        return 1 if self.violations else 0


def outcome_of(f, *a, **k):
    """Run a call and turn it into a comparable outcome tuple."""
    import numpy as np
    try:
        r = f(*a, **k)
    except BaseException as e:  # noqa
        if isinstance(e, (KeyboardInterrupt, Timeout)):
            raise
        return ("raise", type(e).__name__)
    return ("value", freeze_value(r))


def freeze_value(r):
    import numpy as np
    if isinstance(r, np.ndarray):
        return ("nd", tuple(r.shape), str(r.dtype), hashlib.md5(np.ascontiguousarray(r).tobytes()).hexdigest())
    if isinstance(r, (np.generic,)):
        return ("np", str(r.dtype), repr(r.item()))
    if isinstance(r, (tuple, list)):
        return (type(r).__name__,) + tuple(freeze_value(x) for x in r)
    if isinstance(r, dict):
        return ("dict",) + tuple(sorted((str(k), freeze_value(v)) for k, v in r.items()))
    return ("py", type(r).__name__, repr(r)[:4000])


def main(argv=None):
    import argparse, importlib
    ap = argparse.ArgumentParser()
    ap.add_argument("pid")
    ap.add_argument("--tier", default=os.environ.get("VERIF_TIER", "quick"), choices=["quick", "thorough"])
    ap.add_argument("--replay", default=None)
    args = ap.parse_args(argv)
    setup_env()
    seed = int(os.environ.get("VERIF_SEED", "0"))
    pid = args.pid.upper()
    try:
        mod = importlib.import_module(f"vf.props.{pid.lower()}")
    except ImportError as e:
        print(f"harness error: no check for {pid}: {e}")
        return 2
    if args.replay:
        data = json.load(open(args.replay))
        try:
            still = mod.replay(data["replay"])
        except Exception:
            traceback.print_exc()
            return 2
        print(("REPRODUCED" if still else "NOT REPRODUCED") + f" property={pid} {data.get('what', '')[:300]}")
        return 1 if still else 0
    ctx = Ctx(pid, args.tier, seed, getattr(mod, "LEVEL", "exploration"))
    # global watchdog: a check that hangs is a harness error (exit 2), never silence
    limit = int(os.environ.get("VERIF_MAX_SECONDS", "1500" if args.tier == "quick" else "14400"))

    def _watchdog():
        print(f"harness error in {pid}: no result after {limit} s (watchdog)", flush=True)
        try:
            import multiprocessing as mp
            for c in mp.active_children():
                c.terminate()
        finally:
            os._exit(2)
    import threading
    wd = threading.Timer(limit, _watchdog); wd.daemon = True; wd.start()
    try:
        mod.run(ctx)
    except Exception:
        traceback.print_exc()
        print(f"harness error in {pid}")
        return 2
    return ctx.finish()
