"""Reference semantics (RefSem): own parser, brute-force rank/size solver, loop evaluator for all operation families.

Written from the documentation (README, basics.rst, advanced.rst, operation docstrings); shares no code with einx and uses numpy only as a
container for tiny arrays and for scalar / sub-tensor arithmetic.  Anything the documentation leaves open raises NotImplementedError
(the case is then not judged) instead of being decided here.
"""
import re, itertools, math
import numpy as np

# ----------------------------------------------------------------------------- parser
TOK = re.compile(r"\s*(->|\.\.\.|[()\[\],+]|[A-Za-z_][A-Za-z0-9_]*|[0-9]+)")


class ParseError(Exception):
    pass


class Node:
    pass


class Axis(Node):
    def __init__(s, name): s.name = name
    def __repr__(s): return s.name


class Num(Node):
    _c = itertools.count()
    def __init__(s, v): s.v = int(v); s.name = f"#{next(Num._c)}"
    def __repr__(s): return str(s.v)


class Par(Node):
    def __init__(s, items): s.items = items
    def __repr__(s): return "(" + " ".join(map(repr, s.items)) + ")"


class Br(Node):
    def __init__(s, items): s.items = items
    def __repr__(s): return "[" + " ".join(map(repr, s.items)) + "]"


class Ell(Node):
    def __init__(s, inner): s.inner = inner  # None = anonymous
    def __repr__(s): return (repr(s.inner) if s.inner is not None else "") + "..."


class Cat(Node):
    def __init__(s, terms): s.terms = terms
    def __repr__(s): return "(" + " + ".join(map(repr, s.terms)) + ")"


def tokenize(text):
    """returns (tokens, glued) where glued[i] is True when token i follows the previous one without whitespace
    (an ellipsis applies to the preceding atom only when it is glued to it)"""
    pos = 0; out = []; glued = []
    text = text.rstrip()
    while pos < len(text):
        m = TOK.match(text, pos)
        if not m:
            raise ParseError(f"bad char at {pos}")
        out.append(m.group(1)); glued.append(m.start(1) == pos and pos > 0); pos = m.end()
    return out, glued


class P:
    def __init__(s, toks):
        s.t, s.g = toks; s.i = 0
    def glued(s): return s.i < len(s.t) and s.g[s.i]
    def peek(s): return s.t[s.i] if s.i < len(s.t) else None
    def eat(s, x=None):
        tok = s.peek()
        if tok is None or (x is not None and tok != x): raise ParseError(f"expected {x} got {tok}")
        s.i += 1; return tok

    def description(s):
        ins = s.side()
        outs = None
        if s.peek() == "->":
            s.eat(); outs = s.side()
        if s.peek() is not None: raise ParseError("trailing " + str(s.peek()))
        return ins, outs

    def side(s):
        ts = [s.tensor()]
        while s.peek() == ",":
            s.eat(); ts.append(s.tensor())
        return ts

    def tensor(s, stop=(",", "->", None)):
        items = []
        while s.peek() not in stop and s.peek() not in (")", "]", "+"):
            items.append(s.item())
        return items

    def item(s):
        if s.peek() == "...":
            s.eat(); return Ell(None)
        a = s.atom()
        if s.peek() == "..." and s.glued():
            s.eat(); return Ell(a)
        return a

    def atom(s):
        t = s.peek()
        if t == "(":
            s.eat()
            first = s.tensor()
            if s.peek() == "+":
                terms = [s._term(first)]
                while s.peek() == "+":
                    s.eat(); terms.append(s._term(s.tensor()))
                s.eat(")")
                return Cat(terms)
            s.eat(")")
            return Par(first)
        if t == "[":
            s.eat(); inner = s.tensor(); s.eat("]")
            return Br(inner)
        if t is None or t in (")", "]", "+", ",", "->"):
            raise ParseError(f"unexpected {t}")
        s.eat()
        return Num(t) if t.isdigit() else Axis(t)

    def _term(s, items):
        if len(items) != 1 or not isinstance(items[0], (Axis, Num, Par)):
            raise ParseError("bad concat operand")
        return items[0]


def parse(text):
    return P(tokenize(text)).description()


# ----------------------------------------------------------------------------- tree utilities
def walk(n):
    if isinstance(n, list):
        for x in n: yield from walk(x)
        return
    yield n
    if isinstance(n, (Par, Br)): yield from walk(n.items)
    elif isinstance(n, Ell) and n.inner is not None: yield from walk(n.inner)
    elif isinstance(n, Cat): yield from walk(n.terms)


def names_under(n):
    return {x.name for x in walk(n) if isinstance(x, Axis)}


def width(n, counts):
    """number of tensor dimensions an item occupies"""
    if isinstance(n, list): return sum(width(x, counts) for x in n)
    if isinstance(n, (Axis, Num, Par, Cat)): return 1
    if isinstance(n, Br): return width(n.items, counts)
    if isinstance(n, Ell): return counts[id(n)] * (1 if n.inner is None else width(n.inner, counts))
    raise TypeError(n)


def expand(n, counts, suffix=""):
    """remove ellipses: returns list of nodes without Ell; axis names get .i suffixes"""
    if isinstance(n, list):
        out = []
        for x in n: out.extend(expand(x, counts, suffix))
        return out
    if isinstance(n, Axis): return [Axis(n.name + suffix)]
    if isinstance(n, Num):
        m = Num(n.v); m.name = n.name + suffix; return [m]
    if isinstance(n, Par): return [Par(expand(n.items, counts, suffix))]
    if isinstance(n, Br): return [Br(expand(n.items, counts, suffix))]
    if isinstance(n, Cat): return [Cat([expand(t, counts, suffix)[0] for t in n.terms])]
    if isinstance(n, Ell):
        out = []
        for i in range(counts[id(n)]):
            if n.inner is None: out.append(Axis(f"_anon{suffix}.{i}"))
            else: out.extend(expand(n.inner, counts, f"{suffix}.{i}"))
        return out
    raise TypeError(n)


# ----------------------------------------------------------------------------- solver
class NoSolution(Exception): pass
class Ambiguous(Exception): pass


def ellipsis_classes(tensors):
    """ellipses that share an axis name (or are both anonymous) repeat equally: returns (ells, class index per ellipsis, keys)"""
    ells = [n for n in walk(tensors) if isinstance(n, Ell)]
    cls = list(range(len(ells)))
    key = [names_under(e.inner) if e.inner is not None else {"_anon"} for e in ells]
    changed = True
    while changed:
        changed = False
        for i in range(len(ells)):
            for j in range(i):
                if cls[i] != cls[j] and key[i] & key[j]:
                    old = cls[i]
                    for k in range(len(ells)):
                        if cls[k] == old: cls[k] = cls[j]
                    changed = True
    return ells, cls, key


def check_depths(tensors):
    """an axis name has one ellipsis depth (with or without an ellipsis, but not both); nested ellipses are outside RefSem"""
    depth = {}
    def rec(n, d):
        if isinstance(n, list):
            for x in n: rec(x, d)
        elif isinstance(n, Axis):
            if depth.setdefault(n.name, d) != d: raise NoSolution("axis used with and without ellipsis")
        elif isinstance(n, (Par, Br)): rec(n.items, d)
        elif isinstance(n, Cat): rec(n.terms, d)
        elif isinstance(n, Ell):
            if d >= 1: raise NotImplementedError("nested ellipsis")
            if n.inner is not None: rec(n.inner, d + 1)
    rec(tensors, 0)


def check_brackets(tensors):
    """an axis name is either always or never bracketed; brackets may not be nested inside a concatenation"""
    st = {}
    def rec(n, b):
        if isinstance(n, list):
            for x in n: rec(x, b)
        elif isinstance(n, Axis):
            if st.setdefault(n.name, b) != b: raise ParseError("inconsistent bracket usage")
        elif isinstance(n, Par): rec(n.items, b)
        elif isinstance(n, Br): rec(n.items, True)
        elif isinstance(n, Cat): rec(n.terms, b)
        elif isinstance(n, Ell):
            if n.inner is not None: rec(n.inner, b)
    rec(tensors, False)


def all_solutions(tensors, shapes, sizes, max_rep=3, free_witnesses=False):
    """every (ellipsis counts, expanded tensors, axis values) consistent with the constraints; raises Ambiguous when some axis is
    not constrained at all (infinitely many solutions)."""
    check_depths(tensors)
    ells, cls, key = ellipsis_classes(tensors)
    classes = sorted(set(cls))
    allnames = set()
    for n in walk(tensors):
        if isinstance(n, Axis): allnames.add(n.name)
    for name in sizes:
        if name not in allnames: raise NoSolution(f"size given for unknown axis {name}")
    sols = []
    for combo in itertools.product(range(max_rep + 1), repeat=len(classes)):
        counts = {id(e): combo[classes.index(cls[i])] for i, e in enumerate(ells)}
        ok = True
        for t, sh in zip(tensors, shapes):
            if sh is not None and width(t, counts) != len(sh): ok = False; break
        if not ok: continue
        for name, v in sizes.items():
            es = [e for i, e in enumerate(ells) if name in key[i]]
            if isinstance(v, tuple):
                if not es or any(counts[id(e)] != len(v) for e in es): ok = False
        if not ok: continue
        ex = [expand(t, counts) for t in tensors]
        for vals in solve_values(ex, shapes, sizes, free_witnesses):
            sols.append((combo, ex, vals))
    return sols


def solve(tensors, shapes, sizes, max_rep=3):
    """tensors: list of item-lists (inputs then outputs); shapes: list of tuple|None; sizes: dict name -> int | tuple
    returns (expanded tensors, values dict) for the unique solution; raises NoSolution / Ambiguous."""
    sols = all_solutions(tensors, shapes, sizes, max_rep)
    if not sols: raise NoSolution()
    first = sols[0]
    for s in sols[1:]:
        if s[0] != first[0] or s[2] != first[2]: raise Ambiguous()
    return first[1], first[2]


def shapes_from_env(tensors, env):
    """shape of every tensor expression under a full assignment: env maps axis name -> int, or -> tuple for an axis under an ellipsis
    (the tuple length is the repetition count); env['...'] is the tuple for the anonymous ellipsis"""
    ells, cls, key = ellipsis_classes(tensors)
    counts = {}
    for e, k in zip(ells, key):
        c = None
        for name in k:
            v = env["..."] if name == "_anon" else env[name]
            if not isinstance(v, tuple): raise NoSolution("ellipsis axis needs a tuple")
            if c is not None and c != len(v): raise NoSolution("unequal repetition counts")
            c = len(v)
        if c is None: raise NoSolution("ellipsis without an axis name")
        counts[id(e)] = c
    ex = [expand(t, counts) for t in tensors]
    vals = {}
    for n in walk(ex):
        if isinstance(n, Axis):
            parts = n.name.split(".")
            base = parts[0]
            if base == "_anon":
                vals[n.name] = env["..."][int(parts[-1])]
            else:
                v = env[base]
                vals[n.name] = v[int(parts[1])] if isinstance(v, tuple) else v
    return [tuple(length(d, vals) for d in flat_items(t)) for t in ex], ex, vals


def value(n, vals):
    if isinstance(n, (Axis, Num)): return vals.get(n.name) if isinstance(n, Axis) else n.v
    if isinstance(n, Par):
        p = 1
        for x in flat_items(n.items):
            v = value(x, vals)
            if v is None: return None
            p *= v
        return p
    if isinstance(n, Cat):
        s = 0
        for x in n.terms:
            v = value(x, vals)
            if v is None: return None
            s += v
        return s
    raise TypeError(n)


def flat_items(items):
    """items with brackets removed (Br contributes its items in place)"""
    out = []
    for x in items:
        if isinstance(x, Br): out.extend(flat_items(x.items))
        else: out.append(x)
    return out


def solve_values(ex, shapes, sizes, free_witnesses=False):
    # variables
    names = []
    for n in walk(ex):
        if isinstance(n, Axis) and n.name not in names: names.append(n.name)
    fixed = {}
    for name in names:
        base = name.split(".")[0]
        if base in sizes:
            v = sizes[base]
            if isinstance(v, tuple):
                idx = [int(i) for i in name.split(".")[1:]]
                if len(idx) != 1: raise NoSolution()
                v = v[idx[0]]
            fixed[name] = int(v)
    eqs = []  # (node, const)
    for t, sh in zip(ex, shapes):
        if sh is None: continue
        dims = flat_items(t)
        assert len(dims) == len(sh)
        for d, s in zip(dims, sh): eqs.append((d, int(s)))
    constrained = set(fixed)
    for d, s in eqs: constrained |= {x.name for x in walk(d) if isinstance(x, Axis)}
    free = [n for n in names if n not in constrained]
    if free and not free_witnesses: raise Ambiguous()
    M = max([1] + [s for _, s in eqs] + list(fixed.values()))
    order = [n for n in names if n not in fixed]
    dom = {n: ((1, 2) if n in free else range(1, M + 1)) for n in order}   # an unconstrained axis: two witnesses suffice to show non-uniqueness
    eqvars = [({x.name for x in walk(d) if isinstance(x, Axis)}, d, s) for d, s in eqs]
    out = []

    def rec(i, vals):
        for vs, d, s in eqvars:
            if vs <= vals.keys():
                if value(d, vals) != s: return
        if i == len(order):
            out.append(dict(vals)); return
        for v in dom[order[i]]:
            vals[order[i]] = v
            rec(i + 1, vals)
            del vals[order[i]]

    rec(0, dict(fixed))
    # numbers-only equations
    return out


# ----------------------------------------------------------------------------- index functions
def leaf_axes(items, bracketed=None, inbr=False):
    """ordered list of (name, is_bracketed) of leaf axes (Axis and Num) in a tensor, concat excluded"""
    out = []
    for x in items:
        if isinstance(x, (Axis, Num)): out.append((x.name, inbr))
        elif isinstance(x, Par): out.extend(leaf_axes(x.items, None, inbr))
        elif isinstance(x, Br): out.extend(leaf_axes(x.items, None, True))
        elif isinstance(x, Cat): raise ValueError("concat not decomposed")
    return out


def length(n, vals):
    if isinstance(n, Axis): return vals[n.name]
    if isinstance(n, Num): return n.v
    if isinstance(n, Par): return math.prod(length(x, vals) for x in flat_items(n.items))
    if isinstance(n, Cat): return sum(length(x, vals) for x in n.terms)
    raise TypeError(n)


def dim_index(n, vals, assign):
    if isinstance(n, (Axis, Num)): return assign[n.name]
    if isinstance(n, Par):
        acc = 0
        for x in flat_items(n.items):
            acc = acc * length(x, vals) + dim_index(x, vals, assign)
        return acc
    raise TypeError(n)


def tensor_index(items, vals, assign, offsets):
    dims = flat_items(items)
    return tuple(dim_index(d, vals, assign) + off for d, off in zip(dims, offsets))


def branches(items, vals):
    """decompose concatenations: yields (items_without_cat, offsets per dim) in order"""
    dims = flat_items(items)
    # find first Cat at dimension level or nested inside Par
    def find(ns, path=()):
        for i, x in enumerate(ns):
            if isinstance(x, Cat): return path + (i,)
            if isinstance(x, Par):
                r = find(flat_items(x.items), path + (i,))
                if r: return r
        return None
    # only support Cat directly as a dimension (possibly its terms are Par)
    for di, d in enumerate(dims):
        if isinstance(d, Cat):
            off = 0
            for term in d.terms:
                new = list(dims); new[di] = term
                for sub, offs in branches(new, vals):
                    offs = list(offs); offs[di] += off
                    yield sub, offs
                off += length(term, vals)
            return
        if isinstance(d, Par) and any(isinstance(x, Cat) for x in walk(d.items)):
            raise NotImplementedError("concat nested inside flatten")
    yield dims, [0] * len(dims)


def keep_brackets_dims(items):
    """like flat_items but remembers bracket status: returns list of (dimnode, set of bracketed leaf names)"""
    return flat_items(items)


# ----------------------------------------------------------------------------- evaluator
def ranges(names, vals_len):
    return itertools.product(*[range(vals_len[n]) for n in names])


def evaluate(op, desc, arrays, sizes=None, **kw):
    sizes = dict(sizes or {})
    ins, outs = parse(desc)
    if outs is None: raise ParseError("long form required")
    arrays = [np.asarray(a) for a in arrays]
    if len(arrays) != len(ins): raise NoSolution()
    tensors = ins + outs
    check_brackets(tensors)
    shapes = [a.shape for a in arrays] + [None] * len(outs)
    ex, vals = solve(tensors, shapes, sizes)
    exin, exout = ex[:len(ins)], ex[len(ins):]
    L = dict(vals)
    for n in walk(ex):
        if isinstance(n, Num): L[n.name] = n.v
    fam = FAMILY[op]
    if fam is not fam_dot:
        # bracketed leaves are positions of the elementary signature, not loop variables:
        # a repeated name among them only forces equal lengths (already enforced by the solver)
        for t in exin + exout:
            k = 0
            for n in walk(t):
                pass
            k = _uniq_brackets(t, L, vals)
    return fam(op, exin, exout, arrays, vals, L, kw)


def _uniq_brackets(items, L, vals, inbr=False, counter=None):
    if counter is None: counter = [0]
    for x in items:
        if isinstance(x, (Axis, Num)):
            if inbr:
                new = f"{x.name}@{counter[0]}"; counter[0] += 1
                L[new] = L[x.name]
                if isinstance(x, Axis): vals[new] = vals[x.name]
                x.name = new
        elif isinstance(x, Par): _uniq_brackets(x.items, L, vals, inbr, counter)
        elif isinstance(x, Br): _uniq_brackets(x.items, L, vals, True, counter)
    return counter[0]


def brset(items):
    return {n for n, b in leaf_axes(items) if b}


def fam_id(op, exin, exout, arrays, vals, L, kw):
    bin_ = []
    for t, a in zip(exin, arrays):
        for sub, offs in branches(t, vals): bin_.append((sub, offs, a))
    bout = []
    outarrs = []
    for t in exout:
        shape = tuple(length(d, vals) for d in flat_items(t))
        o = np.zeros(shape, dtype=np.result_type(*arrays)); outarrs.append(o)
        for sub, offs in branches(t, vals): bout.append((sub, offs, o))
    if len(bin_) != len(bout): raise NoSolution()
    for (si, oi, a), (so, oo, o) in zip(bin_, bout):
        nin = [n for n, _ in leaf_axes(si)]; nout = [n for n, _ in leaf_axes(so)]
        if len(set(nout)) != len(nout): raise NoSolution()
        for n in set(nin) - set(nout):
            if L[n] != 1: raise NoSolution()
        allnames = list(dict.fromkeys(nout + nin))
        for idx in ranges(allnames, L):
            asg = dict(zip(allnames, idx))
            o[tensor_index(so, vals, asg, oo)] = a[tensor_index(si, vals, asg, oi)]
    return outarrs[0] if len(outarrs) == 1 else tuple(outarrs)


def gather(items, a, vals, L, asg_v):
    """sub-tensor over bracketed leaf axes (in order of appearance) for fixed vectorized assignment"""
    bnames = [n for n, b in leaf_axes(items) if b]
    bn = list(dict.fromkeys(bnames))
    sub = np.zeros(tuple(L[n] for n in bn), dtype=a.dtype)
    for idx in ranges(bn, L):
        asg = dict(asg_v); asg.update(zip(bn, idx))
        sub[idx] = a[tensor_index(items, vals, asg, [0] * len(flat_items(items)))]
    return sub, bn


def vec_names(tensors, L):
    out = []
    for t in tensors:
        for n, b in leaf_axes(t):
            if not b and n not in out: out.append(n)
    return out


REDUCE = {"sum": np.sum, "mean": np.mean, "var": np.var, "std": np.std, "prod": np.prod, "count_nonzero": np.count_nonzero,
          "any": np.any, "all": np.all, "max": np.max, "min": np.min,
          "logsumexp": lambda s: np.log(np.sum(np.exp(s - np.max(s)))) + np.max(s)}


def check_no_cat(ts):
    if any(isinstance(n, Cat) for n in walk(ts)): raise NoSolution()


def out_alloc(exout, vals, dtype):
    return [np.zeros(tuple(length(d, vals) for d in flat_items(t)), dtype=dtype) for t in exout]


def fam_reduce(op, exin, exout, arrays, vals, L, kw):
    check_no_cat(exin + exout)
    (t,), (o,) = exin, exout
    a = arrays[0]
    if brset(o): raise NoSolution()
    vin = [n for n, b in leaf_axes(t) if not b]; vout = [n for n, b in leaf_axes(o)]
    if len(set(vout)) != len(vout): raise NoSolution()
    for n in set(vin) - set(vout):
        if L[n] != 1: raise NoSolution()
    V = list(dict.fromkeys(vout + vin))
    res = None
    for idx in ranges(V, L):
        asg = dict(zip(V, idx))
        sub, _ = gather(t, a, vals, L, asg)
        r = REDUCE[op](sub)
        if res is None: res = out_alloc([o], vals, np.asarray(r).dtype)[0]
        res[tensor_index(o, vals, asg, [0] * len(flat_items(o)))] = r
    return res


def nary(f):
    def g(*xs):
        r = xs[0]
        for y in xs[1:]: r = f(r, y)
        return r
    return g


ELEM = {"add": nary(np.add), "subtract": np.subtract, "multiply": nary(np.multiply), "true_divide": np.true_divide, "floor_divide": np.floor_divide,
        "divide": np.divide, "logical_and": nary(np.logical_and), "logical_or": nary(np.logical_or), "where": np.where, "maximum": nary(np.maximum),
        "minimum": nary(np.minimum), "less": np.less, "less_equal": np.less_equal, "greater": np.greater, "greater_equal": np.greater_equal,
        "equal": np.equal, "not_equal": np.not_equal, "logaddexp": nary(np.logaddexp)}
ARITY = {"subtract": 2, "true_divide": 2, "floor_divide": 2, "divide": 2, "where": 3, "less": 2, "less_equal": 2, "greater": 2, "greater_equal": 2, "equal": 2, "not_equal": 2}


def fam_elem(op, exin, exout, arrays, vals, L, kw):
    check_no_cat(exin + exout)
    (o,) = exout
    if brset(o) or any(brset(t) for t in exin): raise NoSolution()
    if op in ARITY and len(exin) != ARITY[op]: raise NoSolution()
    vout = [n for n, b in leaf_axes(o)]
    if len(set(vout)) != len(vout): raise NoSolution()
    V = list(vout)
    for t in exin:
        for n, _ in leaf_axes(t):
            if n not in V:
                if L[n] != 1: raise NoSolution()
                V.append(n)
    res = None
    for idx in ranges(V, L):
        asg = dict(zip(V, idx))
        xs = [a[tensor_index(t, vals, asg, [0] * len(flat_items(t)))] for t, a in zip(exin, arrays)]
        r = ELEM[op](*xs)
        if res is None: res = out_alloc([o], vals, np.asarray(r).dtype)[0]
        res[tensor_index(o, vals, asg, [0] * len(flat_items(o)))] = r
    return res


def fam_dot(op, exin, exout, arrays, vals, L, kw):
    check_no_cat(exin + exout)
    (o,) = exout
    if brset(o): raise NoSolution()
    B = []
    for t in exin:
        for n, b in leaf_axes(t):
            if b and n not in B: B.append(n)
    for n in B:
        if sum(1 for t in exin if n in {m for m, _ in leaf_axes(t)}) != 2: raise NoSolution()
    for t in exin:
        bl = [n for n, b in leaf_axes(t) if b]
        if len(bl) != len(set(bl)): raise NoSolution()
    vout = [n for n, b in leaf_axes(o)]
    if len(set(vout)) != len(vout): raise NoSolution()
    V = list(vout)
    for t in exin:
        for n, b in leaf_axes(t):
            if not b and n not in V:
                if L[n] != 1: raise NoSolution()
                V.append(n)
    res = out_alloc([o], vals, np.result_type(*arrays))[0]
    for idx in ranges(V, L):
        asg = dict(zip(V, idx))
        tot = 0
        for bidx in ranges(B, L):
            asg2 = dict(asg); asg2.update(zip(B, bidx))
            p = 1
            for t, a in zip(exin, arrays): p = p * a[tensor_index(t, vals, asg2, [0] * len(flat_items(t)))]
            tot = tot + p
        res[tensor_index(o, vals, asg, [0] * len(flat_items(o)))] = tot
    return res


def coord_vector(coord_tensors, coord_arrays, vals, L, asg):
    cs = []
    for t, a in zip(coord_tensors, coord_arrays):
        sub, bn = gather(t, a, vals, L, asg)
        if len(bn) > 1: raise NoSolution()
        cs.extend(np.atleast_1d(sub).tolist())
    return tuple(int(c) for c in cs)


def fam_get_at(op, exin, exout, arrays, vals, L, kw):
    check_no_cat(exin + exout)
    (o,) = exout
    if brset(o) or len(exin) < 2: raise NoSolution()
    t0, cts = exin[0], exin[1:]
    V = vec_names(exin + [o], L)
    vout = [n for n, b in leaf_axes(o)]
    if len(set(vout)) != len(vout): raise NoSolution()
    for n in V:
        if n not in vout and L[n] != 1: raise NoSolution()
    res = out_alloc([o], vals, arrays[0].dtype)[0]
    for idx in ranges(V, L):
        asg = dict(zip(V, idx))
        sub, bn = gather(t0, arrays[0], vals, L, asg)
        c = coord_vector(cts, arrays[1:], vals, L, asg)
        if len(c) != sub.ndim: raise NoSolution()
        res[tensor_index(o, vals, asg, [0] * len(flat_items(o)))] = sub[c]
    return res


def fam_update_at(op, exin, exout, arrays, vals, L, kw):
    """returns the updated tensor; for set_at returns (tensor, allowed) where allowed maps an output index to the set of competing
    update values (the statement leaves the winner among duplicates open)"""
    check_no_cat(exin + exout)
    (o,) = exout
    if len(exin) < 3: raise NoSolution()
    t0, cts, tu = exin[0], exin[1:-1], exin[-1]
    if brset(tu): raise NoSolution()
    if [n for n, b in leaf_axes(t0) if b] != [n for n, b in leaf_axes(o) if b]: raise NoSolution()
    res = np.array(arrays[0], copy=True)
    if not np.can_cast(arrays[-1].dtype, res.dtype, "same_kind"): raise NotImplementedError("update dtype")
    V = vec_names(exin, L)
    bn0 = list(dict.fromkeys(n for n, b in leaf_axes(t0) if b))
    if len(bn0) != len([n for n, b in leaf_axes(t0) if b]): raise NoSolution()
    competing = {}
    for idx in ranges(V, L):
        asg = dict(zip(V, idx))
        c = coord_vector(cts, arrays[1:-1], vals, L, asg)
        if len(c) != len(bn0): raise NoSolution()
        if any(ci < 0 or ci >= L[n] for ci, n in zip(c, bn0)): raise NotImplementedError("coordinate out of range")
        asg2 = dict(asg); asg2.update(zip(bn0, c))
        ti = tensor_index(t0, vals, asg2, [0] * len(flat_items(t0)))
        u = arrays[-1][tensor_index(tu, vals, asg, [0] * len(flat_items(tu)))]
        if op == "add_at": res[ti] += u
        elif op == "subtract_at": res[ti] -= u
        else:
            res[ti] = u; competing.setdefault(ti, set()).add(u.item())
    # rearrange the updated target into the output expression (un-bracketed axes may be permuted / regrouped)
    nin = [n for n, _ in leaf_axes(t0)]; nout = [n for n, _ in leaf_axes(o)]
    if len(set(n for n, b in leaf_axes(o) if not b)) != len([n for n, b in leaf_axes(o) if not b]): raise NoSolution()
    for n in set(nin) - set(nout):
        if L[n] != 1: raise NoSolution()
    for n in set(nout) - set(nin):
        if n not in L: raise NoSolution()
    allnames = list(dict.fromkeys(nout + nin))
    out = out_alloc([o], vals, res.dtype)[0]
    allowed = {}
    for idx in ranges(allnames, L):
        asg = dict(zip(allnames, idx))
        ti = tensor_index(t0, vals, asg, [0] * len(flat_items(t0)))
        oi = tensor_index(o, vals, asg, [0] * len(flat_items(o)))
        out[oi] = res[ti]
        if ti in competing: allowed[oi] = competing[ti]
    if op == "set_at": return out, allowed
    return out


def fam_preserve(op, exin, exout, arrays, vals, L, kw):
    check_no_cat(exin + exout)
    (t,), (o,) = exin, exout
    a = arrays[0]
    if [n for n, b in leaf_axes(t) if b] != [n for n, b in leaf_axes(o) if b]: raise NoSolution()
    vin = [n for n, b in leaf_axes(t) if not b]; vout = [n for n, b in leaf_axes(o) if not b]
    if len(set(vout)) != len(vout): raise NoSolution()
    for n in set(vin) - set(vout):
        if L[n] != 1: raise NoSolution()
    V = list(dict.fromkeys(vout + vin))
    res = None
    for idx in ranges(V, L):
        asg = dict(zip(V, idx))
        sub, bn = gather(t, a, vals, L, asg)
        if op == "flip": r = sub[tuple(slice(None, None, -1) for _ in bn)]
        elif op == "roll":
            sh = kw["shift"]; sh = (sh,) * len(bn) if isinstance(sh, int) else tuple(sh)
            if len(sh) != len(bn): raise NoSolution()
            r = sub
            for ax, s in enumerate(sh): r = np.roll(r, s, axis=ax)
        elif op in ("sort", "argsort"):
            if len(bn) != 1: raise NoSolution()
            r = np.sort(sub) if op == "sort" else np.argsort(sub)
        elif op == "softmax":
            e = np.exp(sub - sub.max()); r = e / e.sum()
        elif op == "log_softmax":
            m = sub.max(); r = sub - (np.log(np.sum(np.exp(sub - m))) + m)
        if res is None: res = out_alloc([o], vals, r.dtype)[0]
        for bidx in ranges(bn, L):
            asg2 = dict(asg); asg2.update(zip(bn, bidx))
            res[tensor_index(o, vals, asg2, [0] * len(flat_items(o)))] = r[bidx]
    return res


def fam_argfind(op, exin, exout, arrays, vals, L, kw):
    check_no_cat(exin + exout)
    (t,), (o,) = exin, exout
    a = arrays[0]
    ob = [n for n, b in leaf_axes(o) if b]
    if len(ob) > 1: raise NoSolution()
    vin = [n for n, b in leaf_axes(t) if not b]; vout = [n for n, b in leaf_axes(o) if not b]
    if len(set(vout)) != len(vout): raise NoSolution()
    for n in set(vin) - set(vout):
        if L[n] != 1: raise NoSolution()
    V = list(dict.fromkeys(vout + vin))
    res = out_alloc([o], vals, np.int64)[0]
    f = np.argmax if op == "argmax" else np.argmin
    for idx in ranges(V, L):
        asg = dict(zip(V, idx))
        sub, bn = gather(t, a, vals, L, asg)
        if sub.ndim == 0: raise NoSolution()
        c = np.unravel_index(int(f(sub.reshape(-1))), sub.shape) if sub.ndim else ()
        if ob:
            if L[ob[0]] != len(c): raise NoSolution()
            for i, ci in enumerate(c):
                asg2 = dict(asg); asg2[ob[0]] = i
                res[tensor_index(o, vals, asg2, [0] * len(flat_items(o)))] = ci
        else:
            if len(c) != 1: raise NoSolution()
            res[tensor_index(o, vals, asg, [0] * len(flat_items(o)))] = c[0]
    return res


FAMILY = {"id": fam_id, "dot": fam_dot, "get_at": fam_get_at, "set_at": fam_update_at, "add_at": fam_update_at, "subtract_at": fam_update_at,
          "argmax": fam_argfind, "argmin": fam_argfind}
FAMILY.update({k: fam_reduce for k in REDUCE})
FAMILY.update({k: fam_elem for k in ELEM})
FAMILY.update({k: fam_preserve for k in ("flip", "roll", "sort", "argsort", "softmax", "log_softmax")})
