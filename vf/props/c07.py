"""C07 - documented shorthand forms mean exactly their documented expansions.

Explorer: E-IN.  For each of the twelve shorthands of the statement, every corpus description to which it applies is called in the short
and in the long form (the long form produced by a rewrite written from the documentation) on identical data; the two outcomes must be
equal (bytes-equal values for integer data, same exception class when both fail).
"""
import itertools, collections, json, re
import numpy as np
from vf import runner, gen, calls, refsem as R

LEVEL = "exploration"
ax = gen.ax


def show_ins(d):
    return ", ".join(gen.show_items(t, d.join) for t in d.ins)


# ------------------------------------------------------------------------------------------------ rewrites (each returns list of (rule, short, long, mode))
# a "form" is (op, description, arrays-from-call-index, sizes, kw); both forms are materialised from Calls so that shapes/sizes are consistent
def strip_brackets(items):
    """reduce default output: remove all bracketed expressions (groups keep their un-bracketed rest)"""
    out = []
    for it in items:
        if it[0] in "an":
            if not it[2]: out.append(it)
        elif it[0] == "g":
            out.append(("g", strip_brackets(it[1])))
        elif it[0] == "e":
            if it[1] is None:
                if not it[2]: out.append(it)
            else:
                inner = strip_brackets((it[1],))
                if inner and not (inner[0][0] == "g" and len(inner[0][1]) == 0): out.append(("e", inner[0], False))
                elif inner: out.append(("e", inner[0], False))
        else:
            out.append(it)
    return tuple(out)


def clear_brackets(items):
    return gen._map_items(items, lambda it: [(it[0], it[1], False)] if it[0] in "an" and it[2] else None)


def default_output(d):
    fam = gen.OP_FAMILY[d.op]
    if fam == "reduce":
        return (strip_brackets(d.ins[0]),)
    if fam == "elementwise":
        names = [set(gen.names_of(t)) | ({"<anonymous ellipsis>"} if any(it[0] == "e" and it[1] is None for it in gen._walk(t)) else set()) for t in d.ins]
        if any(l[0] == "n" and l[1] != 1 for t in d.ins for l in gen.leaves(t)): return None
        cands = [i for i, s in enumerate(names) if all(o <= s for j, o in enumerate(names) if j != i)]
        if len(d.ins) == 1: return (d.ins[0],)
        if len({gen.show_items(d.ins[i], d.join) for i in cands}) != 1: return None
        return (d.ins[cands[0]],)
    if fam == "id":
        return (d.ins[0],) if len(d.ins) == 1 else None
    if fam == "update_at":
        return (d.ins[0],)
    if fam == "preserve_shape":
        return (d.ins[0],)
    if fam == "argfind":
        t = d.ins[0]
        runs = []; cur = None
        for i, it in enumerate(t):
            if it[0] in "an" and it[2]:
                if cur is None: cur = [i, i]; runs.append(cur)
                else: cur[1] = i
            else:
                cur = None
                if it[0] in "ge" and (any(l[2] for l in gen.leaves([it])) or (it[0] == "e" and it[1] is None and it[2])): return None
        if len(runs) != 1: return None
        if runs[0][0] != runs[0][1] and not d.join: return None       # "[a] [b]" is two usages of brackets
        n = runs[0][1] - runs[0][0] + 1
        return (t[:runs[0][0]] + (("n", n, True),) + t[runs[0][1] + 1:],)
    return None


def pairs_for(d):
    """yield (rule, short Desc|None-output allowed, long Desc, compare mode, extra) for one corpus description"""
    fam = gen.OP_FAMILY[d.op]
    # 1 omitted output
    do = default_output(d)
    if do is not None and not any(l[0] == "c" for t in d.ins for l in gen._walk(t)):
        long = d._replace(outs=tuple(do))
        yield ("omitted-output", d._replace(outs=None), long, "equal", None)
        # 9 keepdims=True == parentheses around each bracket (reductions, short form)
        if fam == "reduce" and all(it[0] in "an" for it in d.ins[0]) and not d.join:
            t = d.ins[0]; wrapped = []; i = 0
            while i < len(t):
                if t[i][2]:
                    wrapped.append(("g", (t[i],))); i += 1
                else:
                    wrapped.append(t[i]); i += 1
            yield ("keepdims", d._replace(outs=None, kw={**d.kw, "keepdims": True}), d._replace(ins=(tuple(wrapped),), outs=None), "equal", None)
    # 2 un-bracketed reduction / dot
    if fam in ("reduce", "dot") and d.outs is not None:
        if all(len(set(gen.names_of(t))) == len(gen.names_of(t)) for t in d.ins) and not any(l[0] == "n" and l[2] for t in d.ins for l in gen.leaves(t)):
            brn = {l[1] for t in d.ins for l in gen.leaves(t) if l[2]}
            outn = {l[1] for t in d.outs for l in gen.leaves(t)}
            unbr = {l[1] for t in d.ins for l in gen.leaves(t) if not l[2]}
            anon = any(it[0] == "e" and it[1] is None for t in d.ins for it in gen._walk(t))
            nums = any(l[0] == "n" for t in d.ins for l in gen.leaves(t))
            # the documented expansion brackets ALL axes missing from the output: the long form must have exactly those bracketed
            if brn and not (brn & outn) and unbr <= outn and not anon and not nums:
                yield ("auto-brackets", d._replace(ins=tuple(clear_brackets(t) for t in d.ins)), d, "equal", None)
    if d.outs is None:
        return
    # 3 number == fresh axis of that length
    nums = [l for _, _, t in gen._tensors(d) for l in gen._walk(t) if l[0] == "n"]
    if nums and fam not in ("argfind", "get_at", "update_at"):
        counter = itertools.count(); env = dict(d.env)
        def repl(it):
            if it[0] == "n":
                name = f"q{next(counter)}"; env[name] = it[1]
                return [("a", name, it[2])]
            return None
        long = d._replace(ins=tuple(gen._map_items(t, repl) for t in d.ins), outs=tuple(gen._map_items(t, repl) for t in d.outs), env=env)
        yield ("number", d, long, "equal", {"force_sizes": [k for k in env if k.startswith("q")]})
    # 4 anonymous ellipsis == one shared named ellipsis
    if any(it[0] == "e" and it[1] is None for _, _, t in gen._tensors(d) for it in gen._walk(t)):
        env = dict(d.env); env["zz"] = env.pop("...")
        f = lambda it: [("e", ("a", "zz", it[2]), False)] if it[0] == "e" and it[1] is None else None
        yield ("anonymous-ellipsis", d, d._replace(ins=tuple(gen._map_items(t, f) for t in d.ins), outs=tuple(gen._map_items(t, f) for t in d.outs), env=env), "equal", None)
    # 5 ellipsis == written-out repetition   /  6 scalar size for an ellipsis axis == repeated tuple  (handled at Call level, see expand_ellipsis)
    ell = [it for _, _, t in gen._tensors(d) for it in gen._walk(t) if it[0] == "e" and it[1] is not None and it[1][0] == "a"]
    if ell:
        yield ("ellipsis-written-out", d, None, "expand", None)
    # 8 adjacent brackets == one bracket
    if not d.join:
        j = list(gen.deco_brjoin(d))
        if j: yield ("adjacent-brackets", j[0], d, "equal", None)
    # 7 nested '->' : PRE [X] POST -> PRE [Y] POST   written as   PRE [X -> Y] POST   (single-input families)
    if fam in ("reduce", "preserve_shape", "argfind") and len(d.ins) == 1 and len(d.outs) == 1 and all(it[0] in "an" for it in d.ins[0] + d.outs[0]):
        tin, tout = d.ins[0], d.outs[0]
        p = 0
        while p < min(len(tin), len(tout)) and tin[p] == tout[p] and not tin[p][2]: p += 1
        q = 0
        while q < min(len(tin), len(tout)) - p and tin[len(tin) - 1 - q] == tout[len(tout) - 1 - q] and not tin[len(tin) - 1 - q][2]: q += 1
        mid_in, mid_out = tin[p:len(tin) - q], tout[p:len(tout) - q]
        if mid_in and all(it[2] for it in mid_in) and all(it[2] for it in mid_out):
            pre = " ".join(gen.show_item(it, False) for it in tin[:p]); post = " ".join(gen.show_item(it, False) for it in tin[len(tin) - q:] if q)
            mid = "[" + " ".join(str(it[1]) for it in mid_in) + " -> " + " ".join(str(it[1]) for it in mid_out) + "]"
            yield ("nested-arrow", " ".join(x for x in (pre, mid, post) if x), d._replace(join=True), "text", None)
    # 10 length-1 coordinate bracket == no bracket
    if fam == "argfind" and any(it == ("n", 1, True) for it in d.outs[0]) and not any(it[0] == "e" for it in d.outs[0]):
        yield ("unit-bracket-argmax", d._replace(outs=(tuple(it for it in d.outs[0] if it != ("n", 1, True)),)), d, "squeeze-out", [i for i, it in enumerate(d.outs[0]) if it == ("n", 1, True)][0])
    if fam == "get_at" and len(d.ins) == 2 and any(it == ("n", 1, True) for it in d.ins[1]) and all(it[0] in "an" for it in d.ins[1]) and sum(1 for it in d.ins[0] if it[0] in "an" and it[2]) == 1:
        pos = [i for i, it in enumerate(d.ins[1]) if it == ("n", 1, True)][0]
        yield ("unit-bracket-get_at", d._replace(ins=(d.ins[0], tuple(it for it in d.ins[1] if it != ("n", 1, True)))), d, "squeeze-arg1", pos)
    # 11 additional spaces == single spaces
    yield ("spaces", None, d, "spaces", None)
    # 12 rearrange == id
    if d.op == "id":
        yield ("rearrange", None, d, "rearrange", None)


def expand_ellipsis(call):
    """written-out form of a call whose description uses 'x...' over single axes: returns (description, sizes) or None"""
    desc = call.desc
    sizes = dict(call.sizes)
    env = call.env or {}
    names = sorted({m.group(1) for m in re.finditer(r"\[?([a-z]+)\.\.\.", desc)})
    for x in names:
        v = env.get(x)
        if not isinstance(v, tuple): return None
        c = len(v)
        rep = " ".join(f"{x}x{i}" for i in range(c))
        brep = " ".join(f"[{x}x{i}]" for i in range(c))
        desc = desc.replace(f"[{x}...]", brep if c else "").replace(f"[{x}]...", brep if c else "")
        desc = re.sub(rf"(?<![a-z\[]){x}\.\.\.", rep, desc)
        if x in sizes:
            sv = sizes.pop(x)
            for i in range(c): sizes[f"{x}x{i}"] = sv[i] if isinstance(sv, tuple) else sv
    if "..." in desc: return None
    return re.sub(r" +", " ", desc).replace("( ", "(").replace(" )", ")").replace(" ,", ",").strip(), sizes


def rank_consistent_counts(tensors, shapes, sizes):
    """number of ellipsis repetition assignments (0..4 per class) that are consistent with the RANKS of the given tensors and with tuple-valued sizes
    (axis values play no role: einx resolves repetitions before lengths)"""
    ells, cls, key = R.ellipsis_classes(tensors)
    classes = sorted(set(cls)); n = 0
    for combo in itertools.product(range(5), repeat=len(classes)):
        counts = {id(e): combo[classes.index(cls[i])] for i, e in enumerate(ells)}
        if any(sh is not None and R.width(t, counts) != len(sh) for t, sh in zip(tensors, shapes)): continue
        ok = True
        for name, v in sizes.items():
            if isinstance(v, tuple):
                if any(counts[id(e)] != len(v) for i, e in enumerate(ells) if name in key[i]): ok = False
        n += ok
    return n


def outcome(f):
    import einx
    try:
        return ("value", f())
    except einx.errors.EinxError as e:
        return ("raise", type(e).__name__)
    except Exception as e:  # noqa
        return ("raise", type(e).__name__)


def compare(call_l, o_s, o_l, mode, extra):
    if o_s[0] != o_l[0]:
        return f"short form {o_s[0]} {o_s[1] if o_s[0] == 'raise' else ''} but long form {o_l[0]} {o_l[1] if o_l[0] == 'raise' else ''}"
    if o_s[0] == "raise":
        return None if o_s[1] == o_l[1] else f"short form raises {o_s[1]}, long form raises {o_l[1]}"
    a, b = o_s[1], o_l[1]
    if mode == "squeeze-out":
        b = np.asarray(b)
        if b.ndim <= extra or b.shape[extra] != 1: return f"long form result has shape {b.shape}: no unit dimension at position {extra}"
        b = np.squeeze(b, axis=extra)
    if not calls.same_value(call_l, a, b):
        return f"values differ: short {np.asarray(a).shape} {np.asarray(a).ravel()[:8].tolist()} ; long {np.asarray(b).shape} {np.asarray(b).ravel()[:8].tolist()}"
    return None


def work(chunk):
    import einx
    seed, items = chunk
    hist = collections.Counter(); bad = []
    for dj in items:
        d = gen.Desc(dj["op"], tuple(map(_t, dj["ins"])), None if dj["outs"] is None else tuple(map(_t, dj["outs"])), {k: (tuple(v) if isinstance(v, list) else v) for k, v in dj["env"].items()},
                     dj["join"], dj["kw"], tuple(dj["decos"]))
        for rule, short, long, mode, extra in pairs_for(d):
            for ss in ("distinct", "all2"):
                base = long if long is not None else short
                # materialise the fully explicit form to get shapes and data
                ref_desc = base if base.outs is not None else base._replace(outs=tuple(default_output(base) or ()))
                cl = gen.materialize(ref_desc, ss)
                if cl is None:
                    hist["skip-materialize"] += 1; continue
                try:
                    args = calls.build_args(cl, seed)
                except Exception:
                    hist["skip-args"] += 1; continue
                sizes_l = dict(cl.sizes)
                if rule == "anonymous-ellipsis": sizes_l.pop("zz", None)      # the anonymous form cannot be given a size either
                if extra and isinstance(extra, dict):
                    for k in extra.get("force_sizes", []): sizes_l[k] = base.env[k]
                kw_l = dict(cl.kw); kw_l.update({k: v for k, v in base.kw.items() if k == "keepdims"})
                desc_l = gen.show(base)
                for be in (None, "numpy.numpylike"):
                    bk = {"backend": be} if be else {}
                    run_l = lambda: getattr(einx, d.op)(desc_l, *[a.copy() for a in args], **sizes_l, **kw_l, **bk)
                    if mode == "equal" or mode.startswith("squeeze"):
                        desc_s = gen.show(short)
                        sizes_s = {k: v for k, v in cl.sizes.items() if k in short.env or k in ("...",) or not k.startswith("q")}
                        sizes_s = {k: v for k, v in sizes_s.items() if re.search(rf"(?<![a-z]){k}(?![a-z0-9])", desc_s) or k in sizes_s and k in desc_s.split()}
                        kw_s = dict(cl.kw); kw_s.update({k: v for k, v in short.kw.items() if k == "keepdims"})
                        args_s = [a.copy() for a in args]
                        if mode == "squeeze-arg1": args_s[1] = np.squeeze(args_s[1], axis=extra)
                        run_s = lambda: getattr(einx, d.op)(desc_s, *args_s, **sizes_s, **kw_s, **bk)
                    elif mode == "text":
                        desc_s = short
                        run_s = lambda: getattr(einx, d.op)(desc_s, *[a.copy() for a in args], **sizes_l, **kw_l, **bk)
                    elif mode == "spaces":
                        # only redundant blanks: existing blanks tripled, blanks around '->' and ',', blanks just inside parentheses and brackets
                        desc_s = "  " + desc_l.replace(" ", "   ").replace(",", " , ").replace("->", "  ->  ").replace("(", "( ").replace(")", " )").replace("[", "[ ").replace("]", " ]") + " "
                        run_s = lambda: getattr(einx, d.op)(desc_s, *[a.copy() for a in args], **sizes_l, **kw_l, **bk)
                    elif mode == "rearrange":
                        desc_s = desc_l
                        run_s = lambda: einx.rearrange(desc_l, *[a.copy() for a in args], **sizes_l, **bk)
                    elif mode == "expand":
                        ex = expand_ellipsis(cl)
                        if ex is None: hist["skip-expand"] += 1; continue
                        desc_s = desc_l
                        desc_x, sizes_x2 = ex
                        try:
                            ins_, outs_ = R.parse(desc_s)
                            if rank_consistent_counts(ins_ + outs_, list(cl.shapes) + [None] * len(outs_), sizes_l) != 1:
                                hist["skip-expand"] += 1; continue       # the repetition count does not follow from the ranks: the written-out text says more than the ellipsis
                        except Exception:
                            hist["skip-expand"] += 1; continue
                        if "[" in desc_s and "[" not in desc_x:
                            hist["skip-expand"] += 1; continue       # zero repetitions of the only bracket: the written-out text would switch to automatic bracketing
                        run_s = run_l
                        run_l = lambda: getattr(einx, d.op)(desc_x, *[a.copy() for a in args], **sizes_x2, **kw_l, **bk)
                        # 6: scalar size for an ellipsis axis == the repeated tuple
                        # (with the minimal keyword set, and with every named axis given explicitly so that equal values meet at different ellipsis depths)
                        full = {k: v for k, v in (cl.env or {}).items() if k != "..."}
                        for szs, k, v in [(z, k, v) for z in (sizes_l, full) for k, v in z.items()]:
                            if isinstance(v, tuple) and len(v) >= 1 and len(set(v)) == 1:
                                # the equivalence presupposes that the repetition count follows from the rest of the call (a scalar carries no count)
                                try:
                                    ins_, outs_ = R.parse(desc_s)
                                    if rank_consistent_counts(ins_ + outs_, list(cl.shapes) + [None] * len(outs_), {**szs, k: v[0]}) != 1: hist["scalar-size-count-open"] += 1; continue
                                except Exception:
                                    hist["scalar-size-count-open"] += 1; continue
                                o_t = outcome(lambda: getattr(einx, d.op)(desc_s, *[a.copy() for a in args], **szs, **kw_l, **bk))
                                o_i = outcome(lambda: getattr(einx, d.op)(desc_s, *[a.copy() for a in args], **{**szs, k: v[0]}, **kw_l, **bk))
                                hist["pairs"] += 1; hist["rule:scalar-size"] += 1
                                m = compare(cl, o_i, o_t, "equal", None)
                                if m and len(bad) < 40:
                                    bad.append(({"kind": "shorthand", "rule": "scalar-size", "op": d.op, "short": f"{desc_s} {k}={v[0]}", "backend": str(be)},
                                                f"[scalar-size] einx.{d.op}({desc_s!r}, {k}={v[0]}) vs {k}={v}: {m}", {"desc": dj, "rule": "scalar-size"}))
                    o_s, o_l = outcome(run_s), outcome(run_l)
                    hist["pairs"] += 1; hist[f"rule:{rule}"] += 1
                    if o_s[0] == "value" and o_l[0] == "value": hist["both-values"] += 1
                    m = compare(cl, o_s, o_l, mode, extra)
                    if m:
                        hist["DIFFER"] += 1
                        if len(bad) < 40:
                            bad.append(({"kind": "shorthand", "rule": rule, "op": d.op, "short": str(desc_s), "backend": str(be)},
                                        f"[{rule}] einx.{d.op}({desc_s!r}) vs long form {(desc_x + ' ' + str(sizes_x2)) if mode == 'expand' else desc_l!r} (shapes {cl.shapes}, backend {be}): {m}", {"desc": dj, "rule": rule}))
    return dict(hist), bad


def promised_errors():
    import einx
    x = np.ones((2, 3)); out = []
    for desc, arrs in [("a, b", [np.ones(2), np.ones(3)]), ("a b, b a", [x, x.T]), ("a b, c", [x, np.ones(4)])]:
        try:
            einx.add(desc, *arrs); out.append((desc, "returned"))
        except einx.errors.EinxError:
            pass
        except Exception as e:  # noqa
            out.append((desc, type(e).__name__))
    return out


def _t(x):
    if isinstance(x, list): return tuple(_t(i) for i in x)
    return x


def gen_unit(u):
    ops, Rk, k = u
    from vf.props.c17 import desc_json
    return [json.loads(json.dumps(desc_json(d))) for d in gen.corpus_descs(ops, Rk, k)]


QUICK = [(["id"], 3, 1), (["sum"], 3, 1), (["max", "logsumexp", "any"], 2, 1), (["add"], 2, 0), (["add", "subtract"], 1, 1), (["where"], 1, 1), (["dot"], 3, 0), (["dot"], 2, 1), (["get_at"], 2, 0),
         (["add_at", "set_at"], 2, 0), (["flip", "argmax"], 3, 1), (["sort", "softmax", "roll"], 2, 1)]
THOROUGH = [(["id"], 3, 1), (["id"], 2, 2), (["id"], 4, 0), (["sum", "max", "mean"], 3, 1), (["logsumexp", "any", "prod"], 2, 1), (["add", "subtract"], 2, 1), (["where", "less"], 1, 1), (["dot"], 3, 0), (["dot"], 2, 1),
            (["get_at"], 2, 1), (["add_at", "set_at", "subtract_at"], 2, 0), (["add_at"], 1, 1), (["flip", "argmax", "sort", "softmax", "roll", "argsort", "argmin"], 3, 1)]


def run(ctx):
    plan = QUICK if ctx.tier == "quick" else THOROUGH
    units = [([op], Rk, k) for ops, Rk, k in plan for op in ops]
    items = []; seen = set()
    for lst in runner.pmap(gen_unit, units, chunksize=1):
        for dj in lst:
            key = json.dumps(dj, sort_keys=True)
            if key not in seen: seen.add(key); items.append(dj)
    hist = collections.Counter()
    chunks = [(ctx.seed, c) for c in runner.chunks(items, 25)]
    import random
    random.Random(ctx.seed).shuffle(chunks)
    for h, bad in runner.pmap(work, chunks, chunksize=1):
        hist.update(h)
        for sig, what, rp in bad: ctx.violation(sig, what, rp)
    for desc, what in promised_errors():
        ctx.violation({"kind": "promised-error", "desc": desc}, f"einx.add({desc!r}) must raise (no unique implicit output) but {what}", {"promised": desc})
    ctx.counters.update(hist)
    ctx.sample({"rule": "omitted-output", "short": "einx.sum('a [b] c', x)", "long": "einx.sum('a [b] c -> a c', x)"})
    ctx.sample({"rule": "ellipsis-written-out", "short": "einx.sum('a... [b] -> a...', x)", "long": "einx.sum('ax0 ax1 [b] -> ax0 ax1', x)"})
    ctx.sample({"rule": "nested-arrow", "short": "einx.flip('a [b -> b] c', x)", "long": "einx.flip('a [b] c -> a [b] c', x)"})
    rules = {k[5:]: v for k, v in hist.items() if k.startswith("rule:")}
    ctx.coverage = {
        "evaluations": 2 * hist.get("pairs", 0), "distinct_nontrivial": hist.get("both-values", 0),
        "rule": f"descriptions = corpus {plan}; every applicable rewrite among {sorted(rules)} x size sets (distinct, all-2) x backends (default, numpy.numpylike); "
                "distinct_nontrivial = pairs in which BOTH forms returned a value and the values were compared",
        "exhaustive": True, "descriptions": len(items), "pairs": hist.get("pairs", 0), "pairs_per_rule": rules,
    }
    ctx.assumptions = ["the long form's own meaning is covered by C01", "pairs in which both forms raise the same exception class count as agreeing"]


def replay(d):
    if "promised" in d:
        r = promised_errors(); print(r); return any(x[0] == d["promised"] for x in r)
    h, bad = work((0, [d["desc"]]))
    hits = [b for b in bad if b[2]["rule"] == d["rule"]]
    for b in hits[:5]: print(b[1])
    return bool(hits)
