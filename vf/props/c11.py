"""C11 - backend selection follows the documented precedence and is stable.

Explorer: E-ST, explicit-state breadth-first search.  A state is the event history that reaches it, rebuilt on a fresh BackendRegistry
(the real class) populated with synthetic backends; states are deduplicated by a canonical form of every field of registry.state plus
the fake modules present.  Every lookup of the alphabet is an event, so every lookup is checked after every reachable history against a
reference precedence function of the logical configuration.
"""
import sys, types, collections, itertools
import numpy as np
from vf import runner

LEVEL = "model_checking"


class TF1: pass
class TF2: pass


def make_world():
    from einx._src.frontend.backend import Backend

    def mk(name, prio, ttypes):
        return Backend(ops={}, name=name, priority=prio, optimizations=[], compiler=None,
                       is_supported_tensor=lambda t, tt=ttypes: isinstance(t, tt), get_shape=lambda t: ())
    B = {
        "numpy": mk("numpy", -1, (np.ndarray,)),
        "numpy.x": mk("numpy.x", -5, (np.ndarray,)),
        "f1": mk("f1", 0, (TF1,)),
        "f1.vmap": mk("f1.vmap", -5, (TF1,)),
        "f1.hi": mk("f1.hi", 1, (TF1,)),
        "f2": mk("f2", 0, (TF2,)),
        "f2.b": mk("f2.b", 0, (TF2,)),
    }
    return B


PRIO = {"f1.bad": 0, "numpy": -1, "numpy.x": -5, "f1": 0, "f1.vmap": -5, "f1.hi": 1, "f2": 0, "f2.b": 0}
ACCEPT = {"f1.bad": "t1", "numpy": "np", "numpy.x": "np", "f1": "t1", "f1.vmap": "t1", "f1.hi": "t1", "f2": "t2", "f2.b": "t2"}
TENS = {"np": lambda: (np.zeros(1),), "s": lambda: (1.0,), "t1": lambda: (TF1(),), "t2": lambda: (TF2(),), "np+t1": lambda: (np.zeros(1), TF1()),
        "t1+np": lambda: (TF1(), np.zeros(1)), "t1+t2": lambda: (TF1(), TF2()), "s+t1": lambda: (2, TF1()), "s+np": lambda: (True, np.zeros(1)), "none": lambda: ()}
KINDS = {"np": ["np"], "s": ["s"], "t1": ["t1"], "t2": ["t2"], "np+t1": ["np", "t1"], "t1+np": ["t1", "np"], "t1+t2": ["t1", "t2"], "s+t1": ["s", "t1"],
         "s+np": ["s", "np"], "none": []}
MODS = ("vf1", "vf2")


def events(tier):
    ev = [("reg", "numpy"), ("reg", "numpy.x"), ("reg", "f1.hi"), ("reg", "f2.b"),
          ("lazy", "vf1", "f1", True), ("lazy", "vf1", "f1.vmap", True), ("lazy", "vf2", "f2", False), ("lazy", "vf1", "f1.hi", True), ("lazy", "vf1", "f1.bad", False),
          ("import", "vf1"), ("import", "vf2")]
    tens = ["np", "s", "t1", "np+t1", "t1+t2", "s+t1", "t2"] if tier == "quick" else list(TENS)
    ev += [("get", None, k) for k in tens]
    ev += [("get", "f1", "np"), ("get", "f2", "np"), ("get", "f1.bad", "np"), ("get", "nope", "np"), ("get", "numpy.x", "t1"), ("get", 42, "np"), ("getobj", "f1.vmap", "np")]
    ev += [("enter", "numpy.x"), ("enter", "f1"), ("exit",)]
    if tier != "quick":
        ev += [("lazy", "vf2", "f2", True), ("get_by_name", "f1.hi"), ("get_by_name", "f2"), ("enter", "f2")]
    return ev


def boom():
    raise RuntimeError("factory failed")


def apply(reg, B, ev):
    """returns the observable result of a lookup event, None for other events"""
    from einx._src.frontend import errors as E
    k = ev[0]

    def outcome(f):
        try:
            b = f()
        except Exception as e:  # noqa
            return (type(e).__name__,)
        try:
            b.raise_on_import_failure()
            return ("ok", b.name)
        except E.ImportBackendError:
            return ("ImportBackendError", b.name)
    if k == "reg":
        reg.register(B[ev[1]])
    elif k == "lazy":
        _, mod, name, ok = ev
        reg.register_on_import(mod, name, (lambda n=name: B[n]) if ok else boom)
    elif k == "import":
        sys.modules[ev[1]] = types.ModuleType(ev[1])
    elif k == "get":
        return outcome(lambda: reg.get(ev[1], TENS[ev[2]]()))
    elif k == "getobj":
        return outcome(lambda: reg.get(B[ev[1]], TENS[ev[2]]()))
    elif k == "get_by_name":
        return outcome(lambda: reg.get_by_name(ev[1]))
    elif k == "enter":
        try:
            b = reg.get(ev[1])
        except Exception:
            return None
        reg.enter(b)
    elif k == "exit":
        if reg.state.use_stack:
            reg.exit(reg.state.use_stack[-1])
    return None


def enabled(hist, ev):
    """events that keep the configuration inside the property's quantifier (distinctly named backends)"""
    if ev[0] in ("reg", "lazy"):
        name = ev[1] if ev[0] == "reg" else ev[2]
        for h in hist:
            if h[0] == "reg" and h[1] == name or h[0] == "lazy" and h[2] == name:
                return False
    if ev[0] == "import" and ev in hist:
        return False
    if ev[0] in ("get", "getobj"):
        # a tensor of framework F can only exist once F's module has been imported
        kinds = KINDS[ev[2]]
        if "t1" in kinds and ("import", "vf1") not in hist: return False
        if "t2" in kinds and ("import", "vf2") not in hist: return False
    if ev[0] == "exit":
        depth = 0
        for h, st in zip(hist, logical_trace(hist)):
            pass
        return len(logical(hist)["stack"]) > 0
    return True


def logical(hist):
    """logical configuration reached by a history: available backends (name -> healthy?), imported modules, with-stack"""
    avail = {}; pending = []; mods = set(); stack = []
    for h in hist:
        if h[0] == "reg":
            avail[h[1]] = True
        elif h[0] == "lazy":
            if h[1] in mods: avail[h[2]] = h[3]
            else: pending.append(h)
        elif h[0] == "import":
            mods.add(h[1])
            for p in [p for p in pending if p[1] == h[1]]:
                avail[p[2]] = p[3]; pending.remove(p)
        elif h[0] == "enter":
            if h[1] in avail: stack.append(h[1])
        elif h[0] == "exit":
            if stack: stack.pop()
    return {"avail": avail, "stack": stack}


def logical_trace(hist):
    return [None] * len(hist)


def ref_lookup(cfg, ev):
    """documented precedence: object > name > innermost with > unique highest priority among acceptors"""
    avail, stack = cfg["avail"], cfg["stack"]

    def sel(name):
        return ("ok", name) if avail[name] else ("ImportBackendError", name)
    if ev[0] == "getobj":
        return ("ok", ev[1])
    if ev[0] == "get_by_name":
        return sel(ev[1]) if ev[1] in avail else ("ValueError",)
    backend, tk = ev[1], ev[2]
    if isinstance(backend, str):
        return sel(backend) if backend in avail else ("ValueError",)
    if stack:
        return sel(stack[-1])
    if backend is not None:
        return ("ValueError",)
    kinds = KINDS[tk]
    if all(k == "s" for k in kinds):
        return sel("numpy") if "numpy" in avail else ("ValueError",)
    cands = [n for n, healthy in avail.items() if healthy and ACCEPT[n] in kinds]
    if not cands:
        return ("BackendResolutionError",)
    top = max(PRIO[n] for n in cands)
    best = [n for n in cands if PRIO[n] == top]
    return ("ok", best[0]) if len(best) == 1 else ("BackendResolutionError",)


def build(B, hist):
    from einx._src.frontend.backend import BackendRegistry
    for m in MODS:
        sys.modules.pop(m, None)
    reg = BackendRegistry()
    last = None
    for ev in hist:
        last = apply(reg, B, ev)
    return reg, last


def canon(reg):
    from einx._src.frontend.backend import InvalidBackend
    s = reg.state
    out = []
    for k, v in sorted(vars(s).items()):
        if k == "seen_module_names":
            out.append((k, tuple(sorted(m for m in v if m in MODS))))
        elif k == "uninitialized_backends":
            out.append((k, tuple(sorted((m, tuple(n for n, _ in lst)) for m, lst in v.items()))))
        elif k == "backends":
            out.append((k, tuple(sorted((b.name, b.priority, isinstance(b, InvalidBackend)) for b in v))))
        elif k == "tensortypes_to_backend":
            out.append((k, tuple(sorted((tuple(t.__name__ for t in kk), vv.name) for kk, vv in v.items()))))
        elif k == "name_to_backend":
            out.append((k, tuple(sorted((n, b.name) for n, b in v.items()))))
        elif k == "use_stack":
            out.append((k, tuple(b.name for b in v)))
        else:
            out.append((k, repr(v)))      # a field added later is part of the state too
    out.append(("modules", tuple(m for m in MODS if m in sys.modules)))
    return tuple(out)


def bfs(tier, depth, base=(), EV=None):
    """BFS from the state reached by `base` (default: the empty registry)"""
    B = make_world()
    EV = EV or events(tier)
    reg0, _ = build(B, base)
    lg0 = logical(tuple(base))
    seen = {(canon(reg0), tuple(sorted(lg0["avail"].items())), tuple(lg0["stack"])): tuple(base)}
    frontier = collections.deque([tuple(base)])
    depth += len(base)
    transitions = lookups = 0
    outcomes = collections.Counter()
    bad = []
    maxdepth = 0
    while frontier:
        hist = frontier.popleft()
        if len(hist) >= depth:
            continue
        cfg = logical(hist)
        for ev in EV:
            if not enabled(hist, ev):
                continue
            h2 = hist + (ev,)
            reg, res = build(B, h2)
            transitions += 1
            if ev[0] in ("get", "getobj", "get_by_name"):
                lookups += 1
                exp = ref_lookup(cfg, ev)
                outcomes[res] += 1
                if res != exp and len(bad) < 200:
                    bad.append((h2, res, exp))
            # product state: implementation state x specification state (a divergence between the two must never be merged away)
            lg = logical(h2)
            k = (canon(reg), tuple(sorted(lg["avail"].items())), tuple(lg["stack"]))
            if k not in seen:
                seen[k] = h2
                frontier.append(h2)
                maxdepth = max(maxdepth, len(h2))
    for m in MODS:
        sys.modules.pop(m, None)
    return dict(states=len(seen), transitions=transitions, lookups=lookups, outcomes=outcomes, bad=bad, maxdepth=maxdepth, samples=list(seen.values()))


def shrink(B, hist, exp_fn):
    """drop events while the last lookup still disagrees with the reference"""
    hist = list(hist)
    changed = True
    while changed:
        changed = False
        for i in range(len(hist) - 1):
            cand = tuple(hist[:i] + hist[i + 1:])
            if not all(enabled(cand[:j], cand[j]) for j in range(len(cand))):
                continue
            _, res = build(B, cand)
            if res != ref_lookup(logical(cand[:-1]), cand[-1]):
                hist = list(cand); changed = True; break
    return tuple(hist)


def real_registry_probes():
    """the same precedence on the real global registry with the real numpy backends (object, name, with-block, tensors, scalars, unknown name)"""
    import einx
    x = np.zeros((2, 2))
    out = []
    def name_in_code(**kw):
        try:
            return einx.id("a b -> b a", x, graph=True, **kw).count("einsum") > 0
        except Exception as e:  # noqa
            return type(e).__name__
    out.append(("tensors->numpy", einx.backend.get(None, [x]).name, "numpy"))
    out.append(("scalars->numpy", einx.backend.get(None, [1.0, 2]).name, "numpy"))
    out.append(("name", einx.backend.get("numpy.einsum").name, "numpy.einsum"))
    be = einx.backend.get("numpy.einsum")
    out.append(("object", einx.backend.get(be, [x]) is be, True))
    out.append(("plain call uses numpy", name_in_code(), False))
    out.append(("name arg uses einsum", name_in_code(backend="numpy.einsum"), True))
    with be:
        out.append(("with uses einsum", name_in_code(), True))
        out.append(("name beats with", name_in_code(backend="numpy"), False))
        with einx.backend.get("numpy"):
            out.append(("innermost with", name_in_code(), False))
        out.append(("outer with restored", name_in_code(), True))
    out.append(("after with", name_in_code(), False))
    try:
        einx.backend.get("nope"); r = "returned"
    except ValueError:
        r = "ValueError"
    except Exception as e:  # noqa
        r = type(e).__name__
    out.append(("unknown name", r, "ValueError"))
    try:
        einx.id("a -> a", object()); r = "returned"
    except Exception as e:  # noqa
        r = type(e).__name__
    out.append(("unsupported tensor type", r, "BackendResolutionError"))
    return out


WITH_BASE = (("reg", "numpy"), ("reg", "numpy.x"), ("reg", "f1.hi"), ("import", "vf1"))
WITH_EVENTS = [("enter", "numpy"), ("enter", "numpy.x"), ("enter", "f1.hi"), ("exit",), ("get", None, "np"), ("get", None, "t1"), ("get", "numpy", "t1"), ("get", None, "np+t1")]


def run(ctx):
    depth = 6 if ctx.tier == "quick" else 7
    r = bfs(ctx.tier, depth)
    # second search from a non-initial state: nested with-blocks (re-entering an active backend included) over a populated registry
    r2 = bfs(ctx.tier, 6 if ctx.tier == "quick" else 8, base=WITH_BASE, EV=WITH_EVENTS)
    for k in ("states", "transitions", "lookups"):
        r[k] += r2[k]
    r["outcomes"].update(r2["outcomes"]); r["bad"] += r2["bad"]; r["samples"] += r2["samples"]; r["maxdepth"] = max(r["maxdepth"], r2["maxdepth"])
    B = make_world()
    for h2, res, exp in r["bad"]:
        small = shrink(B, h2, None)
        _, res2 = build(B, small)
        exp2 = ref_lookup(logical(small[:-1]), small[-1])
        sig = {"kind": "precedence", "lookup": repr(small[-1]), "got": repr(res2), "expected": repr(exp2), "history": repr(small[:-1])}
        ctx.violation(sig, f"after history {list(small[:-1])} the lookup {small[-1]} returned {res2}, documented precedence gives {exp2}",
                      {"history": [list(e) for e in small]})
    for label, got, exp in real_registry_probes():
        ctx.count("real_registry_probes")
        if got != exp:
            ctx.violation({"kind": "real-registry", "probe": label, "got": repr(got)}, f"real registry probe '{label}': got {got}, expected {exp}", {"probe": label})
    for m in MODS:
        sys.modules.pop(m, None)
    ctx.counters.update({f"outcome:{k}": v for k, v in r["outcomes"].items()})
    for h in r["samples"][:: max(1, len(r["samples"]) // 8)][:8]:
        ctx.sample({"history_reaching_a_distinct_state": [list(e) for e in h]})
    ctx.coverage = {
        "states": r["states"], "transitions": r["transitions"], "traces_validated_against_impl": r["lookups"],
        "exhaustive": True, "depth_bound": depth, "max_depth_reached": r["maxdepth"], "events": len(events(ctx.tier)), "lookups_checked": r["lookups"],
        "distinct_lookup_outcomes": len(r["outcomes"]),
        "rule": "breadth-first search over event histories on fresh BackendRegistry objects; events: register / register_on_import (healthy or failing factory) / "
                "module import / get(object|name|unknown name|None|42, tensor tuple) / get_by_name / enter / exit; states deduplicated by every field of "
                "registry.state plus fake modules; every lookup event checked against the reference precedence function of the logical configuration",
    }
    ctx.assumptions = ["every transition is executed on the real BackendRegistry (no separate model); traces_validated_against_impl counts the histories whose final lookup was compared with the reference",
                       "synthetic backends accept disjoint tensor types per framework like the real ones; configurations with duplicate backend names are outside the quantifier",
                       "canonical state keeps every field of registry.state, so merged states have the same futures"]


def replay(d):
    if "probe" in d:
        bad = [p for p in real_registry_probes() if p[0] == d["probe"] and p[1] != p[2]]
        print(bad); return bool(bad)
    B = make_world()
    hist = tuple(tuple(e) for e in d["history"])
    _, res = build(B, hist)
    exp = ref_lookup(logical(hist[:-1]), hist[-1])
    for m in MODS:
        sys.modules.pop(m, None)
    print("history", hist[:-1], "\nlookup", hist[-1], "->", res, "expected", exp)
    return res != exp
