"""C03 - ill-formed calls are rejected with documented errors, never computed.

Explorer: E-IN.  (1) ALL token strings up to length L over the notation alphabet through every public entry point with fixed small
tensors; (2) EVERY single-edit corruption of every valid corpus call (one dimension changed, one axis dropped / duplicated / renamed, one
bracket added / removed / moved, one size keyword removed or contradicted, one tensor removed or added, a size of the wrong type);
(3) a table of rule violations taken from the documentation.
Oracle: (a) unconditionally, no call may end in an internal exception type; (b) calls that are ill-formed by an unambiguous criterion
(RefSem's parser rejects; the brute-force solver finds no solution; wrong tensor count; a documented rule) must raise one of the documented
classes and no backend function may have run before the exception (tensors are instances of an ndarray subclass that logs every numpy
API call); (c) calls RefSem can evaluate are not judged here.
"""
import itertools, collections, json, re, traceback, os
import numpy as np
from vf import runner, gen, calls, refsem as R

LEVEL = "exploration"
INTERNAL = ("AssertionError", "NameError", "KeyError", "IndexError", "AttributeError", "RecursionError", "UnboundLocalError", "NotImplementedError")
DOCUMENTED = ("SyntaxError", "RankError", "AxisSizeError", "SemanticError", "OperationNotSupportedError", "BackendResolutionError", "ValueError", "TypeError")
TOK = ["a", "b", "1", "(", ")", "[", "]", "...", "->", ",", "+", " "]
LOG = []


class Spy(np.ndarray):
    """ndarray whose every numpy API use is logged (so that 'no backend computation ran' can be observed)"""

    def __array_function__(self, func, types, args, kwargs):
        LOG.append(getattr(func, "__name__", str(func)))
        args = tuple(a.view(np.ndarray) if isinstance(a, Spy) else a for a in args)
        return func(*_strip(args), **_strip(kwargs))

    def __array_ufunc__(self, ufunc, method, *inputs, **kwargs):
        LOG.append(ufunc.__name__)
        out = kwargs.get("out")
        if out is not None: kwargs["out"] = tuple(o.view(np.ndarray) if isinstance(o, Spy) else o for o in out)
        return getattr(ufunc, method)(*_strip(inputs), **kwargs)


def _strip(x):
    if isinstance(x, Spy): return x.view(np.ndarray)
    if isinstance(x, (list, tuple)): return type(x)(_strip(i) for i in x)
    if isinstance(x, dict): return {k: _strip(v) for k, v in x.items()}
    return x


def spy(a):
    return np.array(a, copy=True).view(Spy)


def site_of(e):
    """innermost frame inside einx: 'file:function' (identifies the raise site without line numbers)"""
    tb = traceback.extract_tb(e.__traceback__)
    for fr in reversed(tb):
        if "/einx/" in fr.filename:
            return fr.filename.split("/einx/")[-1] + ":" + fr.name
    return "outside-einx"


def run_call(op, desc, arrays, kw):
    """-> (kind, class name, site, backend calls made before the outcome)"""
    import einx
    LOG.clear()
    try:
        with runner.time_limit(30):
            r = getattr(einx, op)(desc, *arrays, **kw)
        return ("returned", None, None, list(LOG))
    except runner.Timeout:
        return ("raise", "Timeout", "-", list(LOG))
    except BaseException as e:  # noqa
        if isinstance(e, KeyboardInterrupt): raise
        name = type(e).__name__
        # a failure inside the generated code is reported as CallOperationError: look at the cause for the backend-ran question only
        return ("raise", name, site_of(e), list(LOG))


def classify_ref(op, desc, shapes, sizes):
    """-> 'illformed:<why>' (unambiguous), 'ok' (RefSem gives the call a meaning) or 'unknown'"""
    try:
        ins, outs = R.parse(desc)
    except R.ParseError:
        # RefSem does not read nested '->' / ',' (they are related to their top-level forms by C07): such strings are not judged here
        depth = 0
        for i, ch in enumerate(desc):
            if ch in "([": depth += 1
            elif ch in ")]": depth -= 1
            elif depth > 0 and (ch == "," or desc.startswith("->", i)): return "unknown"
        return "illformed:syntax"
    try:
        R.check_brackets(ins + (outs or []))
    except R.ParseError:
        return "illformed:brackets"
    rule = rule_violation(op, ins, outs or [])
    if rule:
        return "illformed:" + rule
    if outs is None:
        return "unknown"
    if len(ins) != len(shapes):
        return "illformed:tensor-count"
    # a size keyword for an axis that does not occur in the description is ignored by einx on purpose (solve.py: "Remove unused constraints")
    used = R.names_under(ins + outs)
    try:
        sols = R.all_solutions(ins + outs, list(shapes) + [None] * len(outs), {k: v for k, v in sizes.items() if isinstance(v, (int, tuple)) and k in used}, free_witnesses=True,
                               max_rep=max([3] + [len(sh) for sh in shapes if sh is not None]))
    except R.NoSolution:
        return "illformed:unsat"
    except NotImplementedError:
        return "unknown"
    if not sols:
        return "illformed:unsat"
    return "maybe"


def _has_bracket(items):
    # empty brackets '[]' are dropped by the notation (they mark nothing)
    return any(isinstance(n, R.Br) and any(isinstance(x, (R.Axis, R.Num, R.Ell)) for x in R.walk(n.items)) for n in R.walk(items))


def rule_violation(op, ins, outs):
    """documented bracket rules that need no solving: brackets are not allowed in element-wise operations and in id, nor in the output of a
    reduction / dot / get_at"""
    fam = gen.OP_FAMILY.get(op)
    if fam in ("elementwise", "id") and (_has_bracket(ins) or _has_bracket(outs)):
        return "rule: brackets in " + fam
    if fam in ("reduce", "dot", "get_at") and _has_bracket(outs):
        return "rule: brackets in the output of " + fam
    return None


def judge(op, desc, arrays, kw, ref, hist, bad, origin):
    kind, cls, site, log = run_call(op, desc, arrays, kw)
    hist["evaluations"] += 1
    shapes = [tuple(np.shape(a)) for a in arrays]
    def v(kindname, msg):
        hist[kindname] += 1
        if len(bad) < 60:
            bad.append(({"kind": kindname, "exc": str(cls), "site": str(site), "op": op, "desc": desc, "shapes": str(shapes)},
                        f"einx.{op}({desc!r}, shapes={shapes}, {({k: kw[k] for k in kw})}) [{origin}]: {msg}", {"op": op, "desc": desc, "shapes": [list(s) for s in shapes], "kw": _jsonable(kw)}))
    if kind == "raise":
        hist[f"raise:{cls}"] += 1
        if cls == "Timeout":
            hist["inconclusive-timeout"] += 1          # termination is not C03's claim (30 s limit, machine may be loaded)
        elif cls in INTERNAL:
            v("internal-exception", f"raised {cls} at {site}")
        elif cls not in DOCUMENTED and cls not in ("CallOperationError", "ImportBackendError"):
            v("undocumented-exception", f"raised {cls} at {site}")
        elif ref.startswith("illformed"):
            if cls == "CallOperationError":
                v("computed-before-rejecting", f"ill-formed call ({ref[10:]}) was only rejected by the backend at run time ({cls}); backend calls made: {log[:5]}")
            elif log:
                v("computed-before-rejecting", f"ill-formed call ({ref[10:]}) raised {cls} only after backend computation ran: {log[:5]}")
            else:
                hist["rejected-cleanly"] += 1
    else:
        hist["returned"] += 1
        if ref.startswith("illformed"):
            v("illformed-accepted", f"ill-formed call ({ref[10:]}) returned a value instead of raising (backend calls: {log[:5]})")


def _jsonable(kw):
    return {k: (v.tolist() if isinstance(v, np.ndarray) else (list(v) if isinstance(v, tuple) else v)) for k, v in kw.items()}


# ------------------------------------------------------------------------------------------------ (1) token strings through every entry point
ENTRY_OPS = ["id", "sum", "add", "dot", "get_at", "add_at", "flip", "argmax", "rearrange"]


def work_tokens(unit):
    import einx
    prefix, L = unit
    hist = collections.Counter(); bad = []
    x2 = np.arange(4).reshape(2, 2); x1 = np.arange(2)
    for k in range(0, L - len(prefix) + 1):
        for rest in itertools.product(TOK, repeat=k):
            s = "".join(prefix + rest)
            n = s.split("->")[0].count(",") + 1
            if n > 3: continue
            try:
                R.parse(s); rsyn = True
            except R.ParseError:
                rsyn = classify_ref("id", s, [], {}) == "unknown"       # nested '->' / ',': not judged syntactically
            for op in ENTRY_OPS:
                for arrs in ([spy(x2)] * n, [spy(x1)] * n):
                    shapes = [a.shape for a in arrs]
                    ref = classify_ref(op if op != "rearrange" else "id", s, shapes, {}) if rsyn else "illformed:syntax"
                    if ref.startswith("illformed:syntax") and rsyn: ref = "unknown"
                    if ref == "maybe": ref = "unknown"
                    judge(op, s, arrs, {}, ref, hist, bad, "token string")
            for f in ("solve_axes", "solve_shapes", "matches", "check"):
                LOG.clear(); hist["evaluations"] += 1
                try:
                    with runner.time_limit(30):
                        getattr(einx, f)(s, *([spy(x2)] * n))
                except BaseException as e:  # noqa
                    cls = type(e).__name__
                    if cls in INTERNAL and len(bad) < 60:
                        hist["internal-exception"] += 1
                        bad.append(({"kind": "internal-exception", "exc": cls, "site": site_of(e), "op": f, "desc": s, "shapes": "[(2, 2)]*n"}, f"einx.{f}({s!r}, ...) raised {cls} at {site_of(e)}",
                                    {"op": f, "desc": s, "shapes": [[2, 2]] * n, "kw": {}}))
    return dict(hist), bad


# ------------------------------------------------------------------------------------------------ (2) single-edit corruptions of valid calls
def corruptions(call, args):
    """yield (label, desc, arrays, kw)"""
    desc = call.desc; kw = dict(call.sizes); kw.update(call.kw)
    arrs = [spy(a) for a in args]
    # one dimension changed
    for i, a in enumerate(args):
        for d in range(a.ndim):
            sh = list(a.shape); sh[d] += 1
            b = np.resize(a, sh)
            yield (f"dim+1 arg{i} axis{d}", desc, arrs[:i] + [spy(b)] + arrs[i + 1:], kw)
        if a.ndim >= 1:
            yield (f"rank-1 arg{i}", desc, arrs[:i] + [spy(a[..., 0])] + arrs[i + 1:], kw)
            yield (f"rank+1 arg{i}", desc, arrs[:i] + [spy(a[..., None].repeat(2, -1))] + arrs[i + 1:], kw)
    # one tensor removed / added
    if len(arrs) > 1: yield ("tensor removed", desc, arrs[:-1], kw)
    yield ("tensor added", desc, arrs + [spy(args[-1])], kw)
    # size keyword removed / contradicted / wrong type
    for k, v in call.sizes.items():
        k2 = {x: y for x, y in kw.items() if x != k}
        yield (f"size {k} removed", desc, arrs, k2)
        yield (f"size {k} contradicted", desc, arrs, {**kw, k: (tuple(x + 1 for x in v) if isinstance(v, tuple) else v + 1)}) if _determined_elsewhere(call, k) else (f"size {k} float", desc, arrs, {**kw, k: 2.5})
        yield (f"size {k} wrong type", desc, arrs, {**kw, k: "3"})
        yield (f"size {k} negative", desc, arrs, {**kw, k: (tuple(-x for x in v) if isinstance(v, tuple) else -v)})
    yield ("unknown size keyword", desc, arrs, {**kw, "qq": 3})
    # every size given explicitly (ellipsis axes as per-repetition tuples), then one corruption of a tensor rank / a tuple length
    full = {k: v for k, v in (getattr(call, "env", None) or {}).items() if k != "..."}
    if any(isinstance(v, tuple) for v in full.values()):
        kwf = {**kw, **full}
        for i, a in enumerate(args):
            if a.ndim >= 1:
                yield (f"all sizes explicit + rank-1 arg{i}", desc, arrs[:i] + [spy(a[..., 0])] + arrs[i + 1:], kwf)
                yield (f"all sizes explicit + rank+1 arg{i}", desc, arrs[:i] + [spy(a[..., None].repeat(2, -1))] + arrs[i + 1:], kwf)
        for k, v in full.items():
            if isinstance(v, tuple):
                yield (f"all sizes explicit + one repetition more for {k}", desc, arrs, {**kwf, k: v + (2,)})
                if v: yield (f"all sizes explicit + one repetition less for {k}", desc, arrs, {**kwf, k: v[:-1]})
    # token-level edits of the description: drop / duplicate / rename one axis, add / remove / move one bracket
    toks = re.findall(r"\.\.\.|->|[A-Za-z_]\w*|\d+|\S", desc)
    def join(ts):
        s = " ".join(ts)
        return s.replace("( ", "(").replace(" )", ")").replace("[ ", "[").replace(" ]", "]").replace(" ,", ",").replace(" ...", "...")
    for i, t in enumerate(toks):
        if re.fullmatch(r"[A-Za-z_]\w*", t):
            yield (f"axis {t}@{i} dropped", join(toks[:i] + toks[i + 1:]), arrs, kw)
            yield (f"axis {t}@{i} duplicated", join(toks[:i + 1] + [t] + toks[i + 1:]), arrs, kw)
            yield (f"axis {t}@{i} renamed", join(toks[:i] + ["w"] + toks[i + 1:]), arrs, kw)
            yield (f"axis {t}@{i} bracketed", join(toks[:i] + ["[", t, "]"] + toks[i + 1:]), arrs, kw)
        if t in "[]()":
            yield (f"delimiter {t}@{i} removed", join(toks[:i] + toks[i + 1:]), arrs, kw)
        if t == "[" and i + 2 < len(toks):
            yield (f"bracket@{i} moved", join(toks[:i] + [toks[i + 1], "["] + toks[i + 2:]), arrs, kw)
        if t == "->":
            yield ("second arrow", join(toks + ["->", "a"]), arrs, kw)
            yield ("arrow removed", join(toks[:i] + toks[i + 1:]), arrs, kw)
        if t == ",":
            yield (f"comma@{i} removed", join(toks[:i] + toks[i + 1:]), arrs, kw)


def _determined_elsewhere(call, k):
    return any(re.search(rf"(?<![A-Za-z_]){k}(?![A-Za-z0-9_])", part) for part in call.desc.split("->")[0].split(","))


def work_corrupt(chunk):
    seed, items = chunk
    hist = collections.Counter(); bad = []
    for j in items:
        call = gen.Call.from_json(j)
        if j.get("env"): call.env = {k: (tuple(v) if isinstance(v, list) else v) for k, v in j["env"].items()}
        try:
            args = calls.build_args(call, seed)
        except Exception:
            continue
        seen = set()
        for label, desc, arrs, kw in corruptions(call, args):
            shapes = [tuple(a.shape) for a in arrs]
            key = (desc, tuple(shapes), json.dumps(_jsonable(kw), sort_keys=True, default=str))
            if key in seen: continue
            seen.add(key)
            sizes = {k: v for k, v in kw.items() if k not in call.kw}
            try:
                used_names = R.names_under(sum(R.parse(desc)[0:1], []) + (R.parse(desc)[1] or []))
                sizes = {k: v for k, v in sizes.items() if k in used_names}
            except Exception:
                pass
            badtype = any(not isinstance(v, (int, tuple, np.integer)) or isinstance(v, bool) for v in sizes.values()) or any((isinstance(v, int) and v <= 0) or (isinstance(v, tuple) and any(x <= 0 for x in v)) for v in sizes.values())
            if badtype: ref = "illformed:size-type"
            else:
                ref = classify_ref(call.op, desc, shapes, sizes)
                if ref == "maybe":
                    # RefSem finds shapes consistent: is the call as a whole meaningful?
                    try:
                        R.evaluate(call.op, desc, [np.asarray(a) for a in arrs], sizes, **call.kw); ref = "ok"
                    except (R.NoSolution, R.Ambiguous): ref = "unknown"      # operation rules: judged only by the documented-rule table
                    except Exception: ref = "unknown"
            if ref == "ok":
                hist["still-valid"] += 1; continue
            judge(call.op, desc, arrs, kw, ref, hist, bad, label)
    return dict(hist), bad


# ------------------------------------------------------------------------------------------------ (3) documented rules
def rule_table():
    x = np.arange(6).reshape(2, 3); y = np.arange(3); i2 = np.zeros((4, 2), dtype="int64")
    T = [
        ("add", "a [b], b -> a b", [x, y], {}, "brackets in an element-wise op"),
        ("sum", "a [b] -> a b", [x], {}, "reduced axis in the output"),
        ("sum", "a [b] -> a [b]", [x], {}, "brackets in the output of a reduction"),
        ("add", "a [b...], a [b...]", [x, x], {}, "brackets (around an ellipsis) in an element-wise op"),
        ("add", "a [b]..., a [b]... -> a b...", [x, x], {}, "brackets (under an ellipsis) in an element-wise op"),
        ("multiply", "a [b...], a", [x, y[:2]], {}, "brackets (around an ellipsis) in an element-wise op"),
        ("id", "a [...] -> [...] a", [x], {}, "brackets around an anonymous ellipsis in id"),
        ("where", "a [...], a ..., a ... -> a ...", [x > 1, x, x], {}, "brackets around an anonymous ellipsis in where"),
        ("sum", "a [b...] -> a [b...]", [x], {}, "brackets (around an ellipsis) in the output of a reduction"),
        ("dot", "a [b...], [b...] c -> a c [b...]", [x, x.T], {}, "brackets (around an ellipsis) in the output of dot"),
        ("id", "a b -> a", [x], {}, "non-unit input axis missing from the id output"),
        ("id", "a [b] -> a b", [x], {}, "brackets in id"),
        ("sum", "(a + b) -> a", [y], {"a": 1}, "'+' outside id"),
        ("add", "(a + b), a -> a", [y, y[:1]], {}, "'+' outside id"),
        ("id", "a b -> a b -> b a", [x], {}, "two arrows"),
        ("add", "a, b", [y[:2], y], {}, "no unique implicit output"),
        ("add", "a b, b a", [x, x.T], {}, "no unique implicit output"),
        ("dot", "a [b], [b] c, [b] -> a c", [x, x.T, y], {}, "contracted axis in three inputs"),
        ("dot", "a [b] -> a", [x], {}, "dot with one input"),
        ("get_at", "[a] b, i [2] -> i b", [x, i2], {}, "coordinate count does not match bracketed axes"),
        ("get_at", "[a] b, [i j] -> b", [x, i2], {}, "two bracketed axes in a coordinate expression"),
        ("add_at", "[a] b, i [1], i b -> a b", [x, i2[:, :1], np.ones((4, 3), dtype="int64")], {}, "output brackets differ from the target's"),
        ("sort", "[a b] -> [a b]", [x], {}, "sort over two axes"),
        ("flip", "[a] [b] -> [b] [a]", [x], {}, "bracketed axes permuted in a shape-preserving op"),
        ("argmax", "a [b] -> a [2]", [x], {}, "coordinate count wrong in argmax"),
        ("argmax", "a [b] -> a [1] [1]", [x], {}, "two brackets in the argmax output"),
        ("sum", "a a -> ", [np.ones((2, 2))], {}, "repeated axis with automatic brackets"),
        ("id", "a b -> a b a", [x], {}, "repeated axis in the output"),
        ("roll", "a [b]", [x], {}, "missing shift"),
        ("subtract", "a b, a b, a b -> a b", [x, x, x], {}, "three operands for a binary op"),
        ("less", "a b -> a b", [x], {}, "one operand for a binary op"),
        ("where", "a b, a b -> a b", [x > 1, x], {}, "two operands for where"),
        ("id", "a b -> b a", [x, x], {}, "more tensors than expressions"),
        ("id", "a b, c -> b a, c", [x], {}, "fewer tensors than expressions"),
        ("id", 42, [x], {}, "description not a string"),
        ("id", "a b -> b a", ["text"], {}, "argument not a tensor"),
        ("id", "a b -> b a c", [x], {"c": 2.5}, "non-integral size"),
        ("id", "a b -> b a", [x], {"backend": "no-such-backend"}, "unknown backend name"),
        ("id", "a b -> b a", [x], {"backend": 42}, "backend of the wrong type"),
    ]
    return T


def work_rules(_):
    hist = collections.Counter(); bad = []
    for op, desc, arrs, kw, why in rule_table():
        arrs2 = [spy(a) if isinstance(a, np.ndarray) else a for a in arrs]
        import einx
        LOG.clear(); hist["evaluations"] += 1
        try:
            getattr(einx, op)(desc, *arrs2, **kw); out = ("returned", None, None)
        except BaseException as e:  # noqa
            out = ("raise", type(e).__name__, site_of(e))
        log = list(LOG)
        if out[0] == "returned":
            bad.append(({"kind": "illformed-accepted", "exc": "None", "site": "None", "op": op, "desc": str(desc), "rule": why}, f"einx.{op}({desc!r}) [{why}] returned a value (backend calls {log[:4]})", {"rule": why}))
        elif out[1] in INTERNAL or (out[1] not in DOCUMENTED and out[1] != "ImportBackendError"):
            bad.append(({"kind": "internal-exception" if out[1] in INTERNAL else "computed-before-rejecting", "exc": out[1], "site": out[2], "op": op, "desc": str(desc), "rule": why},
                        f"einx.{op}({desc!r}) [{why}] raised {out[1]} at {out[2]} (backend calls {log[:4]})", {"rule": why}))
        elif log:
            bad.append(({"kind": "computed-before-rejecting", "exc": out[1], "site": out[2], "op": op, "desc": str(desc), "rule": why}, f"einx.{op}({desc!r}) [{why}] ran backend functions {log[:4]} before raising {out[1]}", {"rule": why}))
        else:
            hist["rejected-cleanly"] += 1
    return dict(hist), bad


def gen_unit(u):
    ops, Rk, k = u
    return [c.to_json() | {"env": c.env} for c in gen.corpus(ops, Rk, k, ("distinct",))]


QUICK = [(["id"], 2, 1), (["sum"], 2, 1), (["add"], 2, 0), (["dot"], 2, 0), (["get_at"], 2, 0), (["add_at"], 2, 0), (["flip", "argmax", "roll", "sort"], 2, 0), (["where", "subtract"], 1, 1)]
THOROUGH = [(["id"], 3, 1), (["sum", "max"], 3, 1), (["add", "subtract", "where"], 2, 1), (["dot"], 3, 0), (["get_at"], 2, 1), (["add_at", "set_at"], 2, 1), (["flip", "argmax", "roll", "sort", "softmax"], 3, 0)]


def run(ctx):
    L = 3 if ctx.tier == "quick" else 4
    hist = collections.Counter()
    units = [((), L)] if L < 2 else [((t,), L) for t in TOK] + [((), 0)]
    for h, bad in runner.pmap(work_tokens, units, chunksize=1):
        hist.update({"tok:" + k: v for k, v in h.items()})
        for sig, what, rp in bad: ctx.violation(sig, what, rp)
    plan = QUICK if ctx.tier == "quick" else THOROUGH
    items = []; seen = set()
    for lst in runner.pmap(gen_unit, [([op], Rk, k) for ops, Rk, k in plan for op in ops], chunksize=1):
        for j in lst:
            key = (j["op"], j["desc"], json.dumps(j["shapes"]))
            if key not in seen: seen.add(key); items.append(j)
    chunks = [(ctx.seed, c) for c in runner.chunks(items, 10)]
    import random
    random.Random(ctx.seed).shuffle(chunks)
    for h, bad in runner.pmap(work_corrupt, chunks, chunksize=1):
        hist.update({"edit:" + k: v for k, v in h.items()})
        for sig, what, rp in bad: ctx.violation(sig, what, rp)
    h, bad = work_rules(None)
    hist.update({"rule:" + k: v for k, v in h.items()})
    for sig, what, rp in bad: ctx.violation(sig, what, rp)
    ctx.counters.update(hist)
    ctx.sample({"family": "token strings", "alphabet": TOK, "length": L, "entry_points": ENTRY_OPS + ["solve_axes", "solve_shapes", "matches", "check"]})
    for j in items[:: max(1, len(items) // 4)][:4]:
        ctx.sample({"family": "single-edit corruptions of", "call": f"einx.{j['op']}({j['desc']!r})", "shapes": j["shapes"]})
    ctx.sample({"family": "documented rules", "count": len(rule_table())})
    ev = sum(v for k, v in hist.items() if k.endswith(":evaluations"))
    ctx.coverage = {
        "evaluations": ev, "distinct_nontrivial": sum(v for k, v in hist.items() if k.endswith("rejected-cleanly")),
        "rule": f"(1) all token strings of length <= {L} over {TOK} through {len(ENTRY_OPS) + 4} entry points with rank-1 and rank-2 tensors; (2) every single-edit corruption of the corpus "
                f"{plan}; (3) {len(rule_table())} documented rules. distinct_nontrivial = ill-formed calls (by the unambiguous criterion) that were rejected with a documented class and an "
                "empty backend-call log",
        "exhaustive": True, "valid_calls_corrupted": len(items),
    }
    ctx.assumptions = ["criterion (b) is deliberately narrow: RefSem's parser rejects, the brute-force solver finds no assignment, wrong tensor count / size type, or a rule of the table",
                       "tensors are instances of an ndarray subclass logging __array_function__/__array_ufunc__; 'no backend computation' = empty log when the exception arrives"]


def replay(d):
    hist = collections.Counter(); bad = []
    if "rule" in d:
        h, bad = work_rules(None); hits = [b for b in bad if b[2]["rule"] == d["rule"]]
        for b in hits: print(b[1])
        return bool(hits)
    arrs = [spy(np.arange(int(np.prod(s)) if s else 1).reshape(s)) for s in map(tuple, d["shapes"])]
    kw = {k: (tuple(v) if isinstance(v, list) else v) for k, v in d["kw"].items()}
    if d["op"] in ("solve_axes", "solve_shapes", "matches", "check"):
        import einx
        try:
            getattr(einx, d["op"])(d["desc"], *arrs); print("returned"); return False
        except BaseException as e:  # noqa
            print(type(e).__name__, site_of(e)); return type(e).__name__ in INTERNAL
    ref = classify_ref(d["op"], d["desc"], [a.shape for a in arrs], kw)
    judge(d["op"], d["desc"], arrs, kw, ref if ref != "maybe" else "unknown", hist, bad, "replay")
    for b in bad: print(b[1])
    print(dict(hist))
    return bool(bad)
