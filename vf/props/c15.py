"""C15 - adapted user functions follow loop-notation semantics; their outputs are checked.

Explorer: E-IN + short histories.  Instrumented user functions (reduce-style and element-wise, with and without keyword-only options,
well- and misbehaving) wrapped by einx.numpy.adapt_numpylike_reduce / adapt_numpylike_elementwise x the reduce / element-wise corpus x
ALL histories of <= 3 calls over different keyword values.  Oracle: RefSem with the same Python function as elementary operation, the
arguments recorded by the instrumented function, and the forwarded keyword values.
"""
import itertools, collections, json
import numpy as np
from vf import runner, gen, calls, refsem as R

LEVEL = "exploration"
REC = []


def red(x, axis):
    REC.append(("red", np.shape(x), axis, {}))
    return np.sum(np.asarray(x) * 2 + 1, axis=axis)


def red_kw(x, axis, *, scale=1):
    REC.append(("red_kw", np.shape(x), axis, {"scale": scale}))
    return np.sum(np.asarray(x), axis=axis) * scale


def elw2(x, y):
    REC.append(("elw2", (np.shape(x), np.shape(y)), None, {}))
    return np.asarray(x) * 3 - np.asarray(y)


def elw3(x, y, z):
    REC.append(("elw3", (np.shape(x), np.shape(y), np.shape(z)), None, {}))
    return np.asarray(x) * 3 - np.asarray(y) + 7 * np.asarray(z)


def elw_kw(x, y, *, bias=0):
    REC.append(("elw_kw", (np.shape(x), np.shape(y)), None, {"bias": bias}))
    return np.asarray(x) * 3 - np.asarray(y) + bias


def bad_list(x, axis): return np.sum(x, axis=axis).tolist()
def bad_shape(x, axis): return np.sum(x, axis=axis)[None]
def bad_tuple(x, axis): return (np.sum(x, axis=axis), 1)
def bad_none(x, axis): return None
def bad_keep(x, axis): return np.sum(x, axis=axis, keepdims=True)
def ebad_list(x, y): return (np.asarray(x) + np.asarray(y)).tolist()
def ebad_shape(x, y): return (np.asarray(x) + np.asarray(y))[None]
def ebad_none(x, y): return None
def ebad_first(x, y): return np.asarray(x)          # not broadcast: wrong shape whenever y is larger


R.REDUCE["u:red"] = lambda s: np.sum(s * 2 + 1)
R.FAMILY["u:red"] = R.fam_reduce
R.ELEM["u:elw2"] = lambda x, y: x * 3 - y
R.ELEM["u:elw3"] = lambda x, y, z: x * 3 - y + 7 * z
R.ARITY["u:elw2"] = 2; R.ARITY["u:elw3"] = 3
R.FAMILY["u:elw2"] = R.fam_elem; R.FAMILY["u:elw3"] = R.fam_elem


def outcome(f):
    try:
        return ("value", f())
    except BaseException as e:  # noqa
        if isinstance(e, (KeyboardInterrupt, runner.Timeout)): raise
        return ("raise", type(e).__name__)


def ref_reduce(desc, x, sizes, scale=None):
    if scale is None:
        return R.evaluate("u:red", desc, [x], sizes)
    R.REDUCE["u:tmp"] = lambda s, sc=scale: np.sum(s) * sc
    R.FAMILY["u:tmp"] = R.fam_reduce
    return R.evaluate("u:tmp", desc, [x], sizes)


def bracket_positions(call):
    """positions (in the aligned tensor the function receives) that are reduced, and the aligned shape, from RefSem's view"""
    ins, outs = R.parse(call.desc)
    ex, vals = R.solve(ins + outs, list(call.shapes) + [None] * len(outs), dict(call.sizes))
    L = dict(vals)
    for n in R.walk(ex):
        if isinstance(n, R.Num): L[n.name] = n.v
    leaves = R.leaf_axes(ex[0])
    # aligned tensor: one dimension per bracketed axis and per DISTINCT un-bracketed axis (a repeated name is the diagonal)
    distinct = list(dict.fromkeys(n for n, b in leaves if not b))
    return [L[n] for n, b in leaves if b], [L[n] for n in distinct] + [L[n] for n, b in leaves if b]


def work(chunk):
    import einx
    seed, items = chunk
    hist = collections.Counter(); bad = []
    A = {k: einx.numpy.adapt_numpylike_reduce(f) for k, f in dict(red=red, red_kw=red_kw, bad_list=bad_list, bad_shape=bad_shape, bad_tuple=bad_tuple, bad_none=bad_none, bad_keep=bad_keep).items()}
    E = {k: einx.numpy.adapt_numpylike_elementwise(f) for k, f in dict(elw2=elw2, elw3=elw3, elw_kw=elw_kw, ebad_list=ebad_list, ebad_shape=ebad_shape, ebad_none=ebad_none, ebad_first=ebad_first).items()}

    def viol(call, fn, msg, extra=None):
        hist["DIFFER"] += 1
        if len(bad) < 40:
            bad.append(({"kind": "adapter", "fn": fn, "desc": call.desc, "shapes": str(call.shapes), "problem": msg[:50]},
                        f"adapted {fn}({call.desc!r}, shapes={call.shapes}, {call.sizes}): {msg}", {"call": call.to_json(), "fn": fn}))
    for j in items:
        call = gen.Call.from_json(j)
        try:
            args = calls.build_args(call, seed)
        except Exception:
            hist["skip-args"] += 1; continue
        fam = gen.OP_FAMILY[call.op]
        sizes = dict(call.sizes)
        if fam == "reduce":
            x = args[0]
            try:
                exp = ("value", ref_reduce(call.desc, x, sizes))
            except (R.NoSolution, R.Ambiguous, R.ParseError):
                exp = ("illformed",)
            except NotImplementedError:
                continue
            REC.clear()
            got = outcome(lambda: A["red"](call.desc, x.copy(), **sizes))
            hist["evaluations"] += 1
            if got[0] == "value" and exp[0] == "value":
                if not calls.same_value(call, got[1], exp[1]): viol(call, "red", f"result differs from the loop semantics with the same function: {np.asarray(got[1]).ravel()[:6].tolist()} vs {np.asarray(exp[1]).ravel()[:6].tolist()}")
                else: hist["agree"] += 1
                # recorded arguments: one invocation, whole aligned tensor, axis = tuple of the bracketed positions
                if len(REC) != 1: viol(call, "red", f"user function invoked {len(REC)} times")
                else:
                    _, shp, axis, _ = REC[0]
                    try:
                        bsz, allsz = bracket_positions(call)
                    except Exception:
                        bsz = None
                    if not isinstance(axis, tuple) or not all(type(a) is int for a in axis): viol(call, "red", f"axis={axis!r} is not a tuple of int")
                    elif bsz is not None:
                        if int(np.prod(shp)) != int(np.prod(allsz)): viol(call, "red", f"function received a tensor of shape {shp}, the aligned tensor has {int(np.prod(allsz))} elements")
                        elif sorted(shp[a] for a in axis) != sorted(bsz): viol(call, "red", f"axis={axis} selects lengths {[shp[a] for a in axis]} of {shp}, bracketed axes have lengths {bsz}")
                        elif len(set(axis)) != len(axis): viol(call, "red", f"axis={axis} has duplicates")
            elif got[0] == "value" and exp[0] == "illformed":
                hist["value/illformed"] += 1
            elif got[0] == "raise" and exp[0] == "value":
                if got[1] in ("CallOperationError", "AssertionError"):
                    viol(call, "red", f"a well-behaved numpy reduction made the call fail with {got[1]} although the loop semantics gives {np.asarray(exp[1]).ravel()[:4].tolist()}")
                else: hist["rejected-valid:" + got[1]] += 1
            # keyword-only option: all histories of <= 3 calls over different values (cache hits included)
            if exp[0] == "value" and got[0] == "value":
                vals = [2, 2.0, 3, True]
                for h in ([(v,) for v in vals] + list(itertools.product(vals, repeat=2)) + (list(itertools.product([2, 2.0, 3], repeat=3)) if j.get("deep") else [])):
                    fnew = einx.numpy.adapt_numpylike_reduce(red_kw)          # fresh adapter = empty cache for this history
                    for n, v in enumerate(h):
                        REC.clear()
                        g = outcome(lambda: fnew(call.desc, x.copy(), scale=v, **sizes))
                        hist["history-steps"] += 1
                        e = ref_reduce(call.desc, x, sizes, scale=v)
                        if g[0] != "value": viol(call, "red_kw", f"history scale={list(h[:n + 1])}: raised {g[1]}"); break
                        if not calls.same_value(call, g[1], e) or np.asarray(g[1]).dtype != np.asarray(e).dtype:
                            viol(call, "red_kw", f"history scale={list(h[:n + 1])}: result {np.asarray(g[1]).ravel()[:4].tolist()} ({np.asarray(g[1]).dtype}) but scale={v!r} gives {np.asarray(e).ravel()[:4].tolist()} ({np.asarray(e).dtype})"); break
                        if len(REC) != 1 or REC[0][3].get("scale") != v or type(REC[0][3].get("scale")) is not type(v):
                            viol(call, "red_kw", f"history scale={list(h[:n + 1])}: function received {REC[0][3] if REC else None}, expected scale={v!r} verbatim"); break
                    hist["histories"] += 1
                # the first adapter again, after other adapted functions have been compiled in between (cache hit): same result, same function
                REC.clear()
                again = outcome(lambda: A["red"](call.desc, x.copy(), **sizes))
                hist["evaluations"] += 1
                if again[0] != "value" or not calls.same_value(call, again[1], got[1]) or [r[0] for r in REC] != ["red"]:
                    viol(call, "red", f"repeating the call after other adapted functions were compiled gives {again[0]} {np.asarray(again[1]).ravel()[:4].tolist() if again[0] == 'value' else again[1]} (functions invoked: {[r[0] for r in REC]}), first result {np.asarray(got[1]).ravel()[:4].tolist()}")
                # misbehaving functions must make the call fail
                for name in ("bad_list", "bad_shape", "bad_tuple", "bad_none", "bad_keep"):
                    if name in ("bad_shape", "bad_keep") and False: continue
                    g = outcome(lambda: A[name](call.desc, x.copy(), **sizes))
                    hist["evaluations"] += 1
                    if g[0] == "value":
                        # bad_keep / bad_shape are only wrong when they actually change the shape
                        okshape = np.asarray(g[1]).shape == np.asarray(exp[1]).shape
                        r0 = bad_keep(x, ()) if False else None
                        if name == "bad_keep":
                            bsz, _ = bracket_positions(call)
                            if all(b == 1 for b in bsz) or True:
                                # keepdims output has another rank unless nothing is reduced
                                if len(bsz) == 0: continue
                        viol(call, name, f"the function returns a {name[4:]} of the wrong type/shape but the call returned {type(g[1]).__name__} of shape {np.shape(g[1])}")
                    else: hist["misbehaviour-rejected"] += 1
        elif fam == "elementwise" and len(args) in (2, 3):
            key = "elw2" if len(args) == 2 else "elw3"
            iargs = [a.astype("int64") if a.dtype == bool else a for a in args]
            try:
                exp = ("value", R.evaluate("u:" + key, call.desc, iargs, sizes))
            except (R.NoSolution, R.Ambiguous, R.ParseError):
                exp = ("illformed",)
            except NotImplementedError:
                continue
            REC.clear()
            got = outcome(lambda: E[key](call.desc, *[a.copy() for a in iargs], **sizes))
            hist["evaluations"] += 1
            if got[0] == "value" and exp[0] == "value":
                if not calls.same_value(call, got[1], exp[1]): viol(call, key, f"result differs from the loop semantics with the same function")
                else: hist["agree"] += 1
                if len(REC) != 1: viol(call, key, f"user function invoked {len(REC)} times")
                else:
                    shapes = REC[0][1]
                    if len({len(s) for s in shapes}) != 1: viol(call, key, f"function received tensors of different rank: {shapes}")
                    else:
                        try:
                            np.broadcast_shapes(*shapes)
                        except ValueError:
                            viol(call, key, f"function received tensors that are not broadcast-compatible: {shapes}")
            elif got[0] == "raise" and exp[0] == "value" and got[1] in ("CallOperationError", "AssertionError"):
                viol(call, key, f"a well-behaved element-wise numpy function made the call fail with {got[1]} although the loop semantics gives {np.asarray(exp[1]).ravel()[:4].tolist()}")
            if got[0] == "value" and exp[0] == "value":
                if len(args) == 2:
                    for h in [(0,), (5,), (5.0,), (True,), (5, 5.0), (5.0, 5), (1, True), (True, 1), (5, 0, 5.0)]:
                        fnew = einx.numpy.adapt_numpylike_elementwise(elw_kw)
                        for n, v in enumerate(h):
                            REC.clear()
                            g = outcome(lambda: fnew(call.desc, *[a.copy() for a in iargs], bias=v, **sizes))
                            hist["history-steps"] += 1
                            e = np.asarray(exp[1]) + v
                            if g[0] != "value": viol(call, "elw_kw", f"history bias={list(h[:n + 1])}: raised {g[1]}"); break
                            if not calls.same_value(call, g[1], e) or np.asarray(g[1]).dtype != e.dtype:
                                viol(call, "elw_kw", f"history bias={list(h[:n + 1])}: result does not correspond to bias={v!r}"); break
                            if len(REC) != 1 or REC[0][3].get("bias") != v or type(REC[0][3].get("bias")) is not type(v):
                                viol(call, "elw_kw", f"history bias={list(h[:n + 1])}: function received {REC[0][3] if REC else None}, expected bias={v!r} verbatim"); break
                        hist["histories"] += 1
                    for name in ("ebad_list", "ebad_shape", "ebad_none", "ebad_first"):
                        g = outcome(lambda: E[name](call.desc, *[a.copy() for a in iargs], **sizes))
                        hist["evaluations"] += 1
                        if g[0] == "value":
                            if name == "ebad_first" and np.shape(g[1]) == np.shape(exp[1]) and True:
                                # returning the first operand is only wrong when its shape is not the broadcast shape; einx must then reject it
                                shapes = REC and None
                                continue_ok = True
                                try:
                                    # correct shape by coincidence -> nothing to reject
                                    pass
                                finally:
                                    pass
                                continue
                            viol(call, name, f"the function returns the wrong type/shape but the call returned {type(g[1]).__name__} of shape {np.shape(g[1])}")
                        else: hist["misbehaviour-rejected"] += 1
    return dict(hist), bad


def name_clash():
    """an axis named like a keyword-only parameter can never be captured as an axis size: SemanticError"""
    import einx
    out = []
    x = np.ones((2, 3))
    f = einx.numpy.adapt_numpylike_reduce(red_kw)
    for desc, kw in [("a [scale]", {}), ("scale [b]", {}), ("a [b] -> a scale", {"scale": 2})]:
        try:
            f(desc, x, **kw); out.append((desc, "returned"))
        except einx.errors.SemanticError:
            pass
        except Exception as e:  # noqa
            out.append((desc, type(e).__name__))
    g = einx.numpy.adapt_numpylike_elementwise(elw_kw)
    for desc in ["a bias, bias", "bias, bias"]:
        try:
            g(desc, x, np.ones(3)); out.append((desc, "returned"))
        except einx.errors.SemanticError:
            pass
        except Exception as e:  # noqa
            out.append((desc, type(e).__name__))
    return out


def same_name_functions():
    """different functions that share module and qualified name (a def re-run in a notebook cell, two lambdas): every order of adapting them,
    then each called with ITS keyword-only option; the option must reach the function verbatim and can never be taken for an axis size"""
    import einx
    out = []
    x = np.arange(6.0).reshape(2, 3)

    def make(kind):
        if kind == "plain":
            def f(t, axis): REC.append(("f", np.shape(t), axis, {})); return np.sum(t, axis=axis)
        elif kind == "scale":
            def f(t, axis, *, scale=1): REC.append(("f", np.shape(t), axis, {"scale": scale})); return np.sum(t, axis=axis) * scale
        else:
            def f(t, axis, *, gain=1): REC.append(("f", np.shape(t), axis, {"gain": gain})); return np.sum(t, axis=axis) + gain
        return f

    def make_e(kind):
        if kind == "plain":
            def g(a, b): REC.append(("g", None, None, {})); return a + b
        elif kind == "scale":
            def g(a, b, *, scale=1): REC.append(("g", None, None, {"scale": scale})); return (a + b) * scale
        else:
            def g(a, b, *, gain=1): REC.append(("g", None, None, {"gain": gain})); return a + b + gain
        return g
    n = 0
    for order in itertools.permutations(["plain", "scale", "gain"]):
        adapted = {k: einx.numpy.adapt_numpylike_reduce(make(k)) for k in order}
        adapted_e = {k: einx.numpy.adapt_numpylike_elementwise(make_e(k)) for k in order}
        for k in order:
            for v in (3, 3.0):
                kw = {} if k == "plain" else {k: v}
                REC.clear(); n += 1
                try:
                    r = adapted[k]("a [b]", x, **kw)
                    exp = x.sum(1) * (v if k == "scale" else 1) + (v if k == "gain" else 0)
                    if not np.array_equal(r, exp) or (REC and REC[0][3] != kw): out.append((f"reduce order={order} fn={k} {kw}", f"result {np.asarray(r).tolist()} / received {REC[0][3] if REC else None}, expected {exp.tolist()} / {kw}"))
                except Exception as e:  # noqa
                    out.append((f"reduce order={order} fn={k} {kw}", f"raised {type(e).__name__}"))
                REC.clear(); n += 1
                try:
                    r = adapted_e[k]("a b, b", x, np.ones(3), **kw)
                    exp = (x + 1) * (v if k == "scale" else 1) + (v if k == "gain" else 0)
                    if not np.array_equal(r, exp) or (REC and REC[0][3] != kw): out.append((f"elementwise order={order} fn={k} {kw}", f"result differs / received {REC[0][3] if REC else None}"))
                except Exception as e:  # noqa
                    out.append((f"elementwise order={order} fn={k} {kw}", f"raised {type(e).__name__}"))
        # an axis named like the OTHER function's option is an ordinary axis for this function
        try:
            r = adapted["scale"]("a [gain]", x)
            if not np.array_equal(r, x.sum(1)): out.append((f"reduce order={order} axis named gain", "wrong result"))
        except Exception as e:  # noqa
            out.append((f"reduce order={order} axis named gain", f"raised {type(e).__name__}"))
        n += 1
    return n, out


def gen_unit(u):
    ops, Rk, k, sizesets = u
    return [c.to_json() for c in gen.corpus(ops, Rk, k, sizesets)]


DA = ("distinct", "all2"); UN = ("unit0", "unit1", "unit2")
QUICK = [(["sum"], 3, 1, DA), (["sum"], 3, 0, UN), (["sum"], 2, 1, UN), (["add"], 2, 0, DA), (["add"], 1, 1, DA), (["where"], 1, 1, DA)]
THOROUGH = [(["sum"], 3, 1, DA + UN), (["sum"], 2, 2, DA), (["sum"], 4, 0, DA), (["add"], 2, 1, DA), (["add"], 3, 0, DA), (["where"], 2, 0, DA), (["where"], 1, 1, DA)]


def run(ctx):
    from vf import refsem_selftest
    if refsem_selftest.run(): raise RuntimeError("RefSem self-test failed")
    plan = QUICK if ctx.tier == "quick" else THOROUGH
    items = []; seen = set()
    for lst in runner.pmap(gen_unit, [([op], Rk, k, ss) for ops, Rk, k, ss in plan for op in ops], chunksize=1):
        for j in lst:
            key = (j["op"], j["desc"], json.dumps(j["shapes"]))
            if key not in seen: seen.add(key); items.append(j)
    for n, j in enumerate(items):
        j["deep"] = (n % 10 == 0) if ctx.tier == "quick" else (n % 3 == 0)
    hist = collections.Counter()
    chunks = [(ctx.seed, c) for c in runner.chunks(items, 15)]
    import random
    random.Random(ctx.seed).shuffle(chunks)
    for h, bad in runner.pmap(work, chunks, chunksize=1):
        hist.update(h)
        for sig, what, rp in bad: ctx.violation(sig, what, rp)
    nsn, sn = same_name_functions()
    hist["same-name-function-calls"] = nsn
    for where, what in sn:
        ctx.violation({"kind": "same-name", "where": where}, f"functions sharing module and qualified name, {where}: {what}", {"same_name": where})
    for desc, what in name_clash():
        ctx.violation({"kind": "name-clash", "desc": desc, "got": what}, f"axis named like a keyword-only parameter in {desc!r}: expected SemanticError, got {what}", {"clash": desc})
    ctx.counters.update(hist)
    for j in items[:: max(1, len(items) // 5)][:5]:
        ctx.sample({"adapted_call": f"adapt(f)({j['desc']!r})", "shapes": j["shapes"], "functions": "red / red_kw(scale) / 5 misbehaving" if gen.OP_FAMILY[j["op"]] == "reduce" else "elw2|elw3 / elw_kw(bias) / 4 misbehaving"})
    ctx.coverage = {
        "evaluations": hist.get("evaluations", 0) + hist.get("history-steps", 0), "distinct_nontrivial": hist.get("agree", 0),
        "rule": f"descriptions = reduce and element-wise corpus {plan} x (distinct, all-2); per description: well-behaved function vs RefSem with the same function, recorded arguments, "
                "all histories of <= 2 (every 10th description: 3) calls over keyword values {2, 2.0, 3, True} on a fresh adapter, misbehaving functions must fail; plus axis/keyword name "
                "clashes. distinct_nontrivial = calls whose result was compared with the loop semantics and agreed",
        "exhaustive": True, "descriptions": len(items), "histories": hist.get("histories", 0),
    }
    ctx.assumptions = ["adapt_with_vmap does not exist for numpy and is out of reach here", "user functions are numpy functions of the documented signatures"]


def replay(d):
    if "same_name" in d:
        n, sn = same_name_functions(); print(sn[:5]); return any(w == d["same_name"] for w, _ in sn)
    if "clash" in d:
        r = name_clash(); print(r); return any(x[0] == d["clash"] for x in r)
    j = dict(d["call"]); j["deep"] = True
    h, bad = work((0, [j]))
    hits = [b for b in bad if b[2]["fn"] == d["fn"]]
    for b in hits[:5]: print(b[1])
    return bool(hits)
