"""C05 - graph optimisation never changes what an operation computes, and terminates.

Explorer: E-IN over programs (translation validation).  (1) the before/after graph pair of every corpus call (captured from the real
pipeline); (2) ALL synthetic chains from a finite menu built with einx's own numpy tracing signature: every pair of permutations up to
rank R as consecutive transposes, every triple of shapes among the ordered factorizations of 12 and 24 as consecutive reshapes, no-op and
real broadcasts, single/multi element concatenations, mixed chains, each also with the intermediate value shared (second consumer / output).
Oracle: the reference interpreter (vf/interp.py) run on both graphs with injective contents and pairwise distinct axis lengths.
"""
import itertools, collections, json
import numpy as np
from vf import runner, gen, calls, interp, refsem as R

LEVEL = "translation_validation"
PRIMES = [2, 3, 5, 7, 11]


def same(a, b):
    if isinstance(a, (tuple, list)):
        return isinstance(b, (tuple, list)) and len(a) == len(b) and type(a) == type(b) and all(same(x, y) for x, y in zip(a, b))
    a = np.asarray(a); b = np.asarray(b)
    return a.shape == b.shape and a.dtype == b.dtype and bool(np.array_equal(a, b, equal_nan=True))


def describe(v):
    if isinstance(v, (tuple, list)):
        return [describe(x) for x in v]
    v = np.asarray(v)
    return f"shape {v.shape} {v.ravel()[:10].tolist()}"


COMPARISONS = [0]


def compare_graphs(before, after, args, optimizations, passes):
    """-> None or a description of the disagreement"""
    COMPARISONS[0] += 2 + sum(1 for a in args if isinstance(a, np.ndarray))      # outputs, fixed point, in-place effect per tensor input
    import einx._src.tracer as tracer
    a1 = [np.array(a, copy=True, order="K") if isinstance(a, np.ndarray) else a for a in args]
    a2 = [np.array(a, copy=True, order="K") if isinstance(a, np.ndarray) else a for a in args]
    try:
        r1, n1 = interp.run_graph(before, a1)
    except Exception as e:  # noqa
        return None, f"skip: interpreting the un-optimised graph raised {type(e).__name__}"
    try:
        r2, n2 = interp.run_graph(after, a2)
    except Exception as e:  # noqa
        return f"interpreting the optimised graph raised {type(e).__name__}: {str(e)[:120]} while the original computes {describe(r1)}", None
    if not same(r1, r2):
        return f"outputs differ: original {describe(r1)} ; optimised {describe(r2)}", None
    for i, (x, y) in enumerate(zip(a1, a2)):
        if isinstance(x, np.ndarray) and not same(x, y):
            return f"in-place effect on input {i} differs: original {describe(x)} ; optimised {describe(y)}", None
    if passes is not None and passes > 25:
        return f"optimisation needed {passes} passes", None
    # fixed point: optimising the result again must change nothing
    again = tracer.optimize(after, optimizations=optimizations)
    c1 = tracer.compiler.python.compile(after, return_code=True)[1]
    c2 = tracer.compiler.python.compile(again, return_code=True)[1]
    if c1 != c2:
        return "re-optimising the optimised graph changes it again (no fixed point reached)", None
    return None, None


# ------------------------------------------------------------------------------------------------ (1) captured corpus graphs
def work_corpus(chunk):
    import einx
    seed, items = chunk
    hist = collections.Counter(); bad = []
    for j in items:
        call = gen.Call.from_json(j)
        try:
            args = calls.build_args(call, seed)
        except Exception:
            hist["skip-args"] += 1; continue
        for be in calls.BACKENDS:
            with interp.Capture() as cap:
                try:
                    calls.run_einx(call, [a.copy() for a in args], backend=be, graph=True)
                except Exception:
                    hist["not-compiled"] += 1; continue
            if not cap.records:
                hist["cached"] += 1; continue
            rec = cap.records[-1]
            hist["pairs"] += 1
            hist[f"passes={rec['passes']}"] += 1
            msg, skip = compare_graphs(rec["before"], rec["after"], args, rec["optimizations"], rec["passes"])
            if msg is None and not skip and any(a.ndim >= 2 for a in args):
                # same graphs on non-contiguous inputs (Fortran order): reshape then copies instead of returning a view, which makes a lost
                # sharing of an in-place target visible
                fargs = [np.asfortranarray(a) if a.ndim >= 2 else a for a in args]
                hist["layout-variants"] += 1
                msg, skip2 = compare_graphs(rec["before"], rec["after"], fargs, rec["optimizations"], None)
                if msg is not None: msg = "[Fortran-ordered inputs] " + msg
            if skip: hist["skip-run"] += 1
            elif msg is None: hist["agree"] += 1
            else:
                hist["DISAGREE"] += 1
                if len(bad) < 5:
                    bad.append(({"kind": "corpus", "op": call.op, "desc": call.desc, "shapes": str(j["shapes"]), "backend": be},
                                f"optimising the graph of einx.{call.op}({call.desc!r}, shapes={j['shapes']}, backend={be}): {msg}", {"call": j, "backend": be, "seed": seed}))
    hist["comparisons"] = COMPARISONS[0]; COMPARISONS[0] = 0
    return dict(hist), bad


# ------------------------------------------------------------------------------------------------ (2) synthetic chains
def factorizations(n, maxrank=4):
    out = []

    def rec(rem, cur):
        if rem == 1 and cur:
            out.append(tuple(cur)); return
        if len(cur) >= maxrank:
            return
        for f in range(2, rem + 1):
            if rem % f == 0:
                rec(rem // f, cur + [f])
    rec(n, [])
    return out


def chain_specs(tier):
    """each spec: (input shape, [steps]); a step is ("T", perm) | ("R", shape) | ("B", shape) | ("C",) single-element concatenate | ("C2",) concat with itself"""
    maxrank = 4 if tier == "quick" else 5
    for r in range(1, maxrank + 1):
        shape = tuple(PRIMES[:r])
        perms = list(itertools.permutations(range(r)))
        if r == 5 and tier != "thorough":
            continue
        for p1 in perms:
            for p2 in perms:
                yield (shape, [("T", p1), ("T", p2)])
        if r <= 3:
            for p1, p2, p3 in itertools.product(perms, repeat=3):
                yield (shape, [("T", p1), ("T", p2), ("T", p3)])
    for n in ((12,) if tier == "quick" else (12, 24)):
        F = factorizations(n)
        for s0, s1, s2 in itertools.product(F, repeat=3):
            yield (s0, [("R", s1), ("R", s2)])
    F = factorizations(12)
    for s0 in F:
        r = len(s0)
        for p in itertools.permutations(range(r)):
            for s1 in F:
                yield (s0, [("T", p), ("R", s1)])
                yield (s0, [("R", s1), ("T", tuple(range(len(s1))))])
                sp = tuple(s0[i] for i in p)
                yield (s0, [("T", p), ("R", sp)])                       # no-op reshape after a transpose
                yield (s0, [("T", p), ("B", sp), ("T", tuple(np.argsort(p).tolist()))])   # no-op broadcast in the middle
        yield (s0, [("B", s0)])
        yield (s0, [("B", (2,) + s0)])
        yield (s0, [("C",), ("R", s0)])
        yield (s0, [("C2",), ("T", tuple(range(r))[::-1])])
        yield (s0, [("R", s0), ("C",), ("B", s0), ("T", tuple(range(r)))])   # everything is a no-op


def build_chain(spec, shared):
    """returns (Graph, optimizations) built with einx's own numpy signature; shared: 0 = plain, 1 = every intermediate is also an output,
    2 = the first intermediate has a second consumer (added to the final result when shapes allow, else tupled)"""
    import einx._src.tracer as tracer
    from einx._src.frontend.impl import numpy as impl
    kw = impl._get_backend_kwargs()
    npsig = tracer.signature.numpy()
    shape, steps = spec
    x = tracer.signature.classical.Tensor(None, shape=shape)
    cur = x; inter = []
    for st in steps:
        if st[0] == "T": cur = npsig.transpose(cur, tuple(int(i) for i in st[1]))
        elif st[0] == "R": cur = npsig.reshape(cur, tuple(st[1]))
        elif st[0] == "B": cur = npsig.broadcast_to(cur, tuple(st[1]))
        elif st[0] == "C": cur = npsig.concatenate([cur], axis=0)
        elif st[0] == "C2": cur = npsig.concatenate([cur, cur], axis=0)
        inter.append(cur)
    if shared == 0:
        out = cur
    elif shared == 1:
        out = tuple(inter)
    else:
        first = inter[0]
        if len(inter) > 1 and tuple(first.shape) == tuple(cur.shape):
            out = npsig.add(first, cur)
        else:
            out = [cur, npsig.negative(first)]
    return tracer.Graph([x], out, name="op"), kw["optimizations"]


def work_chains(unit):
    import einx
    import einx._src.tracer as tracer
    import einx._src.tracer.optimizer.optimizer as O
    specs = unit
    hist = collections.Counter(); bad = []
    for spec in specs:
        shape, steps = spec
        n = int(np.prod(shape))
        x = (np.arange(n, dtype="int64") * 7 + 3).reshape(shape)
        for shared in (0, 1, 2):
            try:
                g, opts = build_chain(spec, shared)
            except Exception as e:  # noqa
                hist[f"unbuildable:{type(e).__name__}"] += 1; continue
            count = [0]; orig_init = O.Optimizer.__init__

            def init(s, *a, **k):
                count[0] += 1
                return orig_init(s, *a, **k)
            O.Optimizer.__init__ = init
            try:
                with runner.time_limit(30):
                    g2 = tracer.optimize(g, optimizations=opts)
            except runner.Timeout:
                O.Optimizer.__init__ = orig_init
                hist["TIMEOUT"] += 1
                bad.append(({"kind": "termination", "spec": json.dumps([list(shape), [list(map(lambda v: list(v) if isinstance(v, tuple) else v, s)) for s in steps]]), "shared": str(shared)},
                            f"optimising chain {spec} (shared={shared}) did not terminate within 30 s", {"spec": [list(shape), [[s[0]] + [list(v) for v in s[1:]] for s in steps]], "shared": shared}))
                continue
            finally:
                O.Optimizer.__init__ = orig_init
            hist["programs"] += 1
            hist[f"passes={count[0]}"] += 1
            msg, skip = compare_graphs(g, g2, [x], opts, count[0])
            if skip: hist["skip"] += 1
            elif msg is None: hist["agree"] += 1
            else:
                hist["DISAGREE"] += 1
                if len(bad) < 5:
                    bad.append(({"kind": "chain", "spec": json.dumps([list(shape), [[s[0]] + [list(v) for v in s[1:]] for s in steps]]), "shared": str(shared)},
                                f"chain on input shape {shape}: {steps} (shared={shared}): {msg}", {"spec": [list(shape), [[s[0]] + [list(v) for v in s[1:]] for s in steps]], "shared": shared}))
    hist["comparisons"] = COMPARISONS[0]; COMPARISONS[0] = 0
    return dict(hist), bad


# ------------------------------------------------------------------------------------------------ (3) wrapper graphs (InlineGraph)
def _apply(f, *args):
    return f(*args)


def work_wrappers(_):
    """unnamed inner graphs that wrap one call, in every relation between the graph's parameters and the call's arguments (exact, prefix, extra constant,
    ignored parameter, swapped, keyword): only the exact wrapper may be replaced by the function it wraps"""
    import einx
    import einx._src.tracer as tracer
    from einx._src.tracer.signature import python as P
    from einx._src.frontend.impl import numpy as impl
    opts = impl._get_backend_kwargs()["optimizations"]
    hist = collections.Counter(); bad = []
    x = (np.arange(6, dtype="int64") * 3 + 1).reshape(2, 3); y = (np.arange(6, dtype="int64") + 50).reshape(2, 3)
    npv = P.import_("numpy", as_="np")
    fns = {"flip": npv.flip, "negative": npv.negative, "subtract": npv.subtract, "transpose": npv.transpose, "roll": npv.roll}
    shapes = {"exact1": (1, lambda p: [p[0]], {}), "extra-const": (1, lambda p: [p[0], 0], {}), "extra-const1": (1, lambda p: [p[0], 1], {}), "ignored-param": (2, lambda p: [p[0]], {}),
              "exact2": (2, lambda p: [p[0], p[1]], {}), "swapped": (2, lambda p: [p[1], p[0]], {}), "keyword": (1, lambda p: [p[0]], {"axis": 0}), "duplicated": (1, lambda p: [p[0], p[0]], {}),
              "second-only": (2, lambda p: [p[1]], {})}
    for fname, f in fns.items():
        for sname, (nparams, mkargs, kw) in shapes.items():
            if fname in ("flip", "transpose", "roll", "negative") and sname in ("exact2", "swapped", "duplicated") and fname != "negative": continue
            if fname == "subtract" and nparams == 1 and sname not in ("duplicated",): continue
            if fname == "negative" and sname in ("extra-const", "extra-const1", "keyword"): continue
            if fname == "transpose" and sname in ("extra-const", "extra-const1", "keyword"): continue
            if fname == "roll" and sname in ("exact1", "ignored-param", "second-only"): continue
            for nested_in_named in (True,):
                params = [P.Value(None) for _ in range(nparams)]
                inner = tracer.Graph(params, P.call(f, mkargs(params), kw))
                outer_in = [tracer.signature.classical.Tensor(None, shape=(2, 3)) for _ in range(nparams)]
                out = P.call(P.constant(_apply), [inner] + outer_in)
                g = tracer.Graph(outer_in, out, name="op")
                args = [x, y][:nparams]
                try:
                    r1, _ = interp.run_graph(g, [a.copy() for a in args])
                except Exception:
                    hist["wrapper-skip"] += 1; continue
                g2 = tracer.optimize(g, optimizations=opts)
                hist["programs"] += 1
                msg, skip = compare_graphs(g, g2, args, opts, None)
                if msg:
                    hist["DISAGREE"] += 1
                    bad.append(({"kind": "wrapper", "fn": fname, "shape": sname}, f"inner graph wrapping np.{fname} ({sname}): {msg}", {"wrapper": [fname, sname]}))
                else: hist["agree"] += 1
    hist["comparisons"] = COMPARISONS[0]; COMPARISONS[0] = 0
    return dict(hist), bad


CORPUS_QUICK = [(["id"], 3, 1), (["id"], 4, 0), (["sum", "max"], 3, 1), (["add"], 2, 1), (["dot"], 3, 0), (["get_at"], 2, 1), (["add_at"], 2, 1), (["set_at"], 2, 0), (["flip", "argmax", "softmax"], 3, 1),
                (["roll", "sort", "logsumexp"], 2, 1), (["where"], 1, 1)]
CORPUS_THOROUGH = [(["id"], 3, 2), (["id"], 4, 1), (["sum", "max", "mean"], 3, 2), (["add", "subtract", "where"], 2, 1), (["dot"], 3, 1), (["get_at"], 3, 1), (["add_at", "set_at", "subtract_at"], 2, 1),
                   (["add_at"], 3, 0), (["flip", "argmax", "softmax", "roll", "sort"], 3, 1), (["logsumexp", "var", "argsort", "log_softmax"], 2, 1)]


def gen_unit(u):
    ops, Rk, k = u
    return [c.to_json() for c in gen.corpus(ops, Rk, k, ("distinct",))]


def run(ctx):
    plan = CORPUS_QUICK if ctx.tier == "quick" else CORPUS_THOROUGH
    units = [([op], Rk, k) for ops, Rk, k in plan for op in ops]
    items = []; seen = set()
    for lst in runner.pmap(gen_unit, units, chunksize=1):
        for j in lst:
            key = (j["op"], j["desc"], json.dumps(j["shapes"]))
            if key not in seen: seen.add(key); items.append(j)
    items.sort(key=lambda j: (j["op"], len(j["desc"]), j["desc"]))
    hist = collections.Counter()
    chunks = [(ctx.seed, c) for c in runner.chunks(items, 40)]
    for h, bad in runner.pmap(work_corpus, chunks, chunksize=1):
        hist.update({"corpus:" + k: v for k, v in h.items()})
        for sig, what, rp in bad: ctx.violation(sig, what, rp)
    specs = list(chain_specs(ctx.tier))
    for h, bad in runner.pmap(work_chains, list(runner.chunks(specs, 200)), chunksize=1):
        hist.update({"chain:" + k: v for k, v in h.items()})
        for sig, what, rp in bad: ctx.violation(sig, what, rp)
    h, bad = work_wrappers(None)
    hist.update({"wrapper:" + k: v for k, v in h.items()})
    for sig, what, rp in bad: ctx.violation(sig, what, rp)
    ctx.counters.update(hist)
    for s in specs[:: max(1, len(specs) // 6)][:6]:
        ctx.sample({"chain": {"input_shape": list(s[0]), "steps": [[st[0]] + [list(v) for v in st[1:]] for st in s[1]]}, "variants": "plain / all intermediates are outputs / first intermediate has a second consumer"})
    for j in items[:: max(1, len(items) // 4)][:4]:
        ctx.sample({"captured_graph_pair_of": f"einx.{j['op']}({j['desc']!r})", "shapes": j["shapes"]})
    programs = hist.get("corpus:pairs", 0) + hist.get("chain:programs", 0) + hist.get("wrapper:programs", 0)
    ctx.coverage = {
        "programs": programs, "disagreements_checked": hist.get("corpus:comparisons", 0) + hist.get("chain:comparisons", 0) + hist.get("wrapper:comparisons", 0), "exhaustive": True,
        "corpus_graph_pairs": hist.get("corpus:pairs", 0), "synthetic_chains": hist.get("chain:programs", 0), "chain_specs": len(specs),
        "max_passes_seen": max([int(k.split("=")[1]) for k in hist if "passes=" in k] or [0]),
        "rule": "disagreements_checked = individual before/after comparisons made (outputs, post-state of each tensor input, fixed point). program = (graph before optimisation, graph after) pair; corpus pairs captured from real calls on all three backends; synthetic chains = all transpose pairs "
                "(ranks<=4, triples for rank<=3; rank 5 in thorough), all reshape triples over ordered factorizations of 12 (and 24), mixed transpose/reshape/broadcast/concatenate "
                "chains with no-ops, each x 3 sharing variants; both graphs interpreted on injective contents with pairwise distinct lengths; outputs, dtypes, shapes and "
                "post-state of inputs compared; pass count <= 25; re-optimisation must be a no-op",
    }
    ctx.assumptions = ["the reference interpreter is independent of the code generator and of compiler/run.py", "contents are injective integers, axis lengths pairwise distinct primes",
                       "only the optimisation list of the numpy backends is exercised"]


def replay(d):
    if "wrapper" in d:
        h, bad = work_wrappers(None); hits = [b for b in bad if b[2]["wrapper"] == d["wrapper"]]
        for b in hits: print(b[1])
        return bool(hits)
    if "call" in d:
        h, bad = work_corpus((d.get("seed", 0), [d["call"]]))
        for b in bad: print(b[1])
        return any(b[0]["backend"] == d["backend"] for b in bad)
    shape, steps = d["spec"]
    spec = (tuple(shape), [tuple([s[0]] + [tuple(v) for v in s[1:]]) for s in steps])
    h, bad = work_chains([spec])
    for b in bad: print(b[1])
    return any(b[0]["shared"] == str(d["shared"]) for b in bad)
