"""C09 - arguments are never modified (except the documented in-place *_at target).

Explorer: E-IN.  Every corpus call (all families, graph=True twins, solve_*/matches, adapters, arity corruptions) x every memory layout of
every tensor argument from {C-contiguous, Fortran-ordered view, strided slice view, broadcast view, read-only copy, 0-d array} x mutable
containers for sizes and options.  Oracle: byte snapshot, shape, strides, dtype and flags of every argument (and of the base array of
views) before and after; only the first tensor of set_at/add_at/subtract_at may differ; a read-only non-target argument must not even make
the call fail.
"""
import itertools, collections, json
import numpy as np
from vf import runner, gen, calls

LEVEL = "exploration"
LAYOUTS = ["C", "F", "strided", "broadcast", "readonly", "negstride"]


def layout(a, kind):
    """returns (array with the requested memory layout and the same contents, base array or None)"""
    a = np.asarray(a)
    if kind == "C":
        x = np.array(a, copy=True, order="C"); return x, None
    if kind == "F":
        if a.ndim < 2: return None, None
        base = np.array(a.T, copy=True, order="C"); return base.T, base
    if kind == "strided":
        if a.ndim < 1 or a.shape[-1] == 0: return None, None
        base = np.zeros(a.shape[:-1] + (a.shape[-1] * 2,), dtype=a.dtype); base[..., ::2] = a; base[..., 1::2] = -7
        return base[..., ::2], base
    if kind == "negstride":
        if a.ndim < 1: return None, None
        base = np.array(a[..., ::-1], copy=True); return base[..., ::-1], base
    if kind == "broadcast":
        # only when the contents really are constant along the first axis
        if a.ndim < 1 or a.shape[0] < 2 or not all(np.array_equal(a[0], a[i]) for i in range(a.shape[0])): return None, None
        base = np.array(a[0], copy=True); return np.broadcast_to(base, a.shape), base
    if kind == "readonly":
        x = np.array(a, copy=True); x.flags.writeable = False; return x, None
    raise KeyError(kind)


def snapshot(x):
    if isinstance(x, np.ndarray):
        return ("nd", x.shape, x.strides, str(x.dtype), x.flags.writeable, x.flags.c_contiguous, x.flags.f_contiguous, np.array(x, copy=True).tobytes())
    if isinstance(x, (list, tuple)):
        return (type(x).__name__,) + tuple(snapshot(i) for i in x)
    if isinstance(x, dict):
        return ("dict",) + tuple((k, snapshot(v)) for k, v in x.items())
    return ("py", repr(x))


def check_call(call, seed, hist, bad, extra_tensor=False, nonfinite=False):
    import einx
    try:
        args = calls.build_args(call, seed)
    except Exception:
        hist["skip-args"] += 1; return
    fam = gen.OP_FAMILY[call.op]
    target = 0 if fam == "update_at" else None
    # mutable containers for sizes
    sizes = {}
    for i, (k, v) in enumerate(call.sizes.items()):
        sizes[k] = (list(v) if i % 2 == 0 else np.array(v)) if isinstance(v, tuple) else (np.array(v) if i % 3 == 2 else v)
    kw_extra = {k: (list(v) if isinstance(v, tuple) else v) for k, v in call.kw.items()}
    # reference outcome with plain C-contiguous writeable arguments
    def run(arglist, graph=False, backend=None):
        kw = dict(sizes); kw.update(kw_extra)
        if graph: kw["graph"] = True
        if backend: kw["backend"] = backend
        return getattr(einx, call.op)(call.desc, *arglist, **kw)
    if extra_tensor:
        args = args + [np.array(args[-1], copy=True)]
    if nonfinite:
        args = [a.astype("float64") if a.dtype.kind == "f" else a for a in args]
        for a in args:
            if a.dtype.kind == "f" and a.size:
                flat = a.reshape(-1); flat[0] = np.inf
                if a.size > 1: flat[-1] = -np.inf
                if a.size > 2: flat[a.size // 2] = np.nan
    for be in (None, "numpy.numpylike"):
        try:
            ref = run([np.array(a, copy=True) for a in args], backend=be); ref_ok = True
        except Exception:
            ref = None; ref_ok = False
        for pos in range(len(args)):
            for kind in LAYOUTS:
                if kind == "broadcast" and pos != len(args) - 1: continue
                x, base = layout(args[pos], kind)
                if x is None: continue
                for graph in (False, True):
                    if graph and kind not in ("C", "readonly"): continue
                    arglist = [np.array(a, copy=True) for a in args]
                    arglist[pos] = x
                    before = [snapshot(a) for a in arglist]
                    before_base = snapshot(base) if base is not None else None
                    before_sizes = snapshot(sizes); before_kw = snapshot(kw_extra)
                    hist["evaluations"] += 1
                    try:
                        got = run(arglist, graph=graph, backend=be); ok = True
                    except Exception as e:  # noqa
                        got = None; ok = False; exc = type(e).__name__
                    after = [snapshot(a) for a in arglist]
                    for i, (b, a2) in enumerate(zip(before, after)):
                        if b != a2 and not (i == target and not graph):
                            what = "contents" if b[:7] == a2[:7] else "shape/strides/dtype/flags"
                            bad.append(_v(call, be, pos, kind, graph, f"argument {i} was modified ({what})")); hist["MODIFIED"] += 1
                        elif b != a2 and i == target and b[1:4] != a2[1:4]:
                            bad.append(_v(call, be, pos, kind, graph, f"in-place target changed shape/strides/dtype")); hist["MODIFIED"] += 1
                    if i == target and graph and before[target] != after[target]:
                        bad.append(_v(call, be, pos, kind, graph, "graph=True modified the target")); hist["MODIFIED"] += 1
                    if base is not None and snapshot(base) != before_base and pos != target:
                        bad.append(_v(call, be, pos, kind, graph, f"the base array of the view passed as argument {pos} was modified")); hist["MODIFIED"] += 1
                    if snapshot(sizes) != before_sizes or snapshot(kw_extra) != before_kw:
                        bad.append(_v(call, be, pos, kind, graph, "a size/option container was modified")); hist["MODIFIED"] += 1
                    if kind == "readonly" and pos != target and ref_ok and not ok and not graph:
                        bad.append(_v(call, be, pos, kind, graph, f"a read-only (non-target) argument made the call fail with {exc}")); hist["READONLY-FAILS"] += 1
                    if ok and ref_ok and not graph and not calls.same_value(call, got, ref) and fam != "update_at":
                        bad.append(_v(call, be, pos, kind, graph, "result depends on the memory layout of an argument")); hist["LAYOUT-DEPENDENT"] += 1
                    if ok: hist["returned"] += 1
                    else: hist["raised"] += 1


def _v(call, be, pos, kind, graph, msg):
    return ({"kind": "modified", "op": call.op, "desc": call.desc, "shapes": str(call.shapes), "backend": str(be), "pos": str(pos), "layout": kind, "graph": str(graph), "problem": msg[:40]},
            f"einx.{call.op}({call.desc!r}, shapes={call.shapes}, backend={be}, graph={graph}) with argument {pos} in layout '{kind}': {msg}",
            {"call": call.to_json(), "backend": be})


def solve_api(seed, hist, bad):
    import einx
    x = np.arange(6).reshape(2, 3)
    for f in (einx.solve_axes, einx.solve_shapes, einx.matches, einx.check):
        for kind in LAYOUTS:
            a, base = layout(x, kind)
            if a is None: continue
            sizes = {"b": np.array(3)}
            before = snapshot(a); bs = snapshot(sizes)
            hist["evaluations"] += 1
            try:
                f("a b", a, **sizes)
            except Exception:
                pass
            if snapshot(a) != before or snapshot(sizes) != bs:
                bad.append(({"kind": "modified", "op": f.__name__, "layout": kind}, f"einx.{f.__name__}('a b', x) modified its argument (layout {kind})", {"solve": f.__name__}))


def arity(seed, hist, bad):
    """one tensor too many / too few: whatever the outcome, nothing may be written into an argument"""
    import einx
    x = np.arange(6, dtype="float64").reshape(2, 3) + 1
    for op in gen.FAMILY_OPS["elementwise"]:
        for n in (1, 2, 3, 4):
            if op == "where" and n < 3: continue
            arrs = [np.array(x + i, copy=True) for i in range(n)]
            if op in ("logical_and", "logical_or"): arrs = [a > 2 for a in arrs]
            if op == "where": arrs[0] = arrs[0] > 2
            desc = ", ".join(["a b"] * n) + " -> a b"
            before = [snapshot(a) for a in arrs]
            hist["evaluations"] += 1
            try:
                getattr(einx, op)(desc, *arrs); out = "returned"
            except Exception as e:  # noqa
                out = type(e).__name__
            for i, a in enumerate(arrs):
                if snapshot(a) != before[i]:
                    bad.append(({"kind": "modified", "op": op, "desc": desc, "pos": str(i), "problem": "arity"},
                                f"einx.{op}({desc!r}) with {n} tensors ({out}) overwrote argument {i}", {"arity": [op, n]}))
                    hist["MODIFIED"] += 1


def adapters(seed, hist, bad):
    import einx
    x = np.arange(6, dtype="float64").reshape(2, 3)
    def red(t, axis=None): return np.sum(t, axis=axis)
    def elw(a, b): return a + b
    for name, f, args in [("reduce", lambda a: einx.numpy.adapt_numpylike_reduce(red)("a [b]", a), 1), ("elementwise", lambda a, b: einx.numpy.adapt_numpylike_elementwise(elw)("a b, b -> b a", a, b), 2)]:
        for kind in LAYOUTS:
            a, base = layout(x, kind)
            if a is None: continue
            arrs = [a] + ([np.ones(3)] if args == 2 else [])
            before = [snapshot(v) for v in arrs]
            hist["evaluations"] += 1
            try:
                f(*arrs)
            except Exception as e:  # noqa
                if kind == "readonly": bad.append(({"kind": "modified", "op": "adapt_" + name, "layout": kind, "problem": "readonly fails"}, f"adapted {name} fails on a read-only argument: {type(e).__name__}", {"adapter": name}))
            if [snapshot(v) for v in arrs] != before:
                bad.append(({"kind": "modified", "op": "adapt_" + name, "layout": kind}, f"adapted {name} function call modified its argument (layout {kind})", {"adapter": name}))


def runtime_failures(seed, hist, bad):
    """calls that fail while the compiled function runs: whatever happens, every argument keeps contents, shape, dtype and flags"""
    import einx
    x = np.arange(6.0).reshape(2, 3)

    def boom(shape): raise RuntimeError("factory failed")
    def badfn(t, axis): raise RuntimeError("user function failed")
    cases = [
        ("get_at out of range", lambda a, i: einx.get_at("[a] b, i -> i b", a, i), [x.copy(), np.array([0, 5, 1])]),
        ("set_at out of range", lambda a, i, u: einx.set_at("[a] b, i, i b -> [a] b", a, i, u), [x.copy(), np.array([0, 7]), np.ones((2, 3))]),
        ("add_at out of range", lambda a, i, u: einx.add_at("[a] b, i, i b -> [a] b", a, i, u), [x.copy(), np.array([9, 1]), np.ones((2, 3))]),
        ("factory raises", lambda a, f: einx.add("a b, b", a, f), [x.copy(), boom]),
        ("adapted function raises", lambda a: einx.numpy.adapt_numpylike_reduce(badfn)("a [b]", a), [x.copy()]),
        ("wrong factory shape", lambda a, f: einx.add("a b, b", a, f), [x.copy(), lambda shape: np.ones((7,))]),
        ("float coordinates", lambda a, i: einx.get_at("[a] b, i -> i b", a, i), [x.copy(), np.array([0.5, 1.5])]),
    ]
    for name, f, args in cases:
        before = [snapshot(a) for a in args if isinstance(a, np.ndarray)]
        hist["evaluations"] += 1
        try:
            f(*args); out = "returned"
        except Exception as e:  # noqa
            out = type(e).__name__
        after = [snapshot(a) for a in args if isinstance(a, np.ndarray)]
        for i, (b, a2) in enumerate(zip(before, after)):
            target_ok = name.startswith(("set_at", "add_at")) and i == 0 and b[1:5] == a2[1:5]
            if b != a2 and not target_ok:
                what = "contents" if b[:7] == a2[:7] else "shape/strides/dtype/flags"
                bad.append(({"kind": "modified", "op": name, "pos": str(i), "problem": "runtime failure"}, f"{name} ({out}): argument {i} was modified ({what}; writeable {b[4]} -> {a2[4]})", {"runtime": name}))
                hist["MODIFIED"] += 1


def work(chunk):
    seed, items = chunk
    hist = collections.Counter(); bad = []
    for j in items:
        call = gen.Call.from_json(j)
        b = []
        check_call(call, seed, hist, b)
        if call.op in calls.FLOAT_OPS:
            check_call(call, seed, hist, b, nonfinite=True)       # inf / -inf / nan entries (numerically guarded code paths)
        bad.extend(b[:2])
    return dict(hist), bad[:30]


PLAN_QUICK = [(["id"], 3, 1), (["sum", "max", "logsumexp"], 2, 1), (["add", "subtract"], 2, 0), (["add"], 1, 1), (["where"], 1, 1), (["dot"], 2, 1), (["get_at"], 2, 0), (["get_at"], 1, 1),
              (["set_at", "add_at", "subtract_at"], 2, 0), (["add_at"], 1, 1), (["flip", "roll", "sort", "softmax", "argmax", "argsort"], 2, 1)]
PLAN_THOROUGH = [(["id"], 3, 2), (["sum", "max", "mean", "logsumexp", "var", "prod"], 3, 1), (["add", "subtract", "where", "multiply", "less", "logaddexp"], 2, 1), (["dot"], 3, 1), (["get_at"], 2, 1),
                 (["set_at", "add_at", "subtract_at"], 2, 1), (["flip", "roll", "sort", "softmax", "argmax", "argsort", "log_softmax", "argmin"], 3, 1)]


def gen_unit(u):
    ops, Rk, k = u
    return [c.to_json() for c in gen.corpus(ops, Rk, k, ("distinct",))]


def run(ctx):
    plan = PLAN_QUICK if ctx.tier == "quick" else PLAN_THOROUGH
    units = [([op], Rk, k) for ops, Rk, k in plan for op in ops]
    items = []; seen = set()
    for lst in runner.pmap(gen_unit, units, chunksize=1):
        for j in lst:
            key = (j["op"], j["desc"], json.dumps(j["shapes"]))
            if key not in seen: seen.add(key); items.append(j)
    items.sort(key=lambda j: (j["op"], len(j["desc"]), j["desc"]))
    hist = collections.Counter()
    chunks = [(ctx.seed, c) for c in runner.chunks(items, 10)]
    import random
    random.Random(ctx.seed).shuffle(chunks)
    for h, bad in runner.pmap(work, chunks, chunksize=1):
        hist.update(h)
        for sig, what, rp in bad: ctx.violation(sig, what, rp)
    bad = []
    solve_api(ctx.seed, hist, bad); arity(ctx.seed, hist, bad); adapters(ctx.seed, hist, bad); runtime_failures(ctx.seed, hist, bad)
    for sig, what, rp in bad: ctx.violation(sig, what, rp)
    ctx.counters.update(hist)
    for j in items[:: max(1, len(items) // 6)][:6]:
        ctx.sample({"call": f"einx.{j['op']}({j['desc']!r})", "shapes": j["shapes"], "layouts": LAYOUTS, "each_argument_position": True})
    ctx.coverage = {
        "evaluations": hist.get("evaluations", 0), "distinct_nontrivial": len(items),
        "rule": f"calls = corpus {plan}; for each call x backend in (default, numpy.numpylike) x argument position x layout in {LAYOUTS} (+ graph=True for C/readonly): snapshot of every "
                "argument, of the base of views, of size/option containers before and after; plus solve_axes/solve_shapes/matches/check, adapters and elementwise calls with "
                "1-4 tensors (arity corruption). distinct_nontrivial = distinct calls (each evaluated under every applicable layout at every position)",
        "exhaustive": True, "calls": len(items), "returned": hist.get("returned", 0), "raised": hist.get("raised", 0),
    }
    ctx.assumptions = ["contents chosen per seed", "a broadcast view is only offered where the contents are constant along the first axis", "dtype int64/float64/bool only"]


def replay(d):
    hist = collections.Counter(); bad = []
    if "call" in d: check_call(gen.Call.from_json(d["call"]), 0, hist, bad)
    elif "solve" in d: solve_api(0, hist, bad)
    elif "arity" in d: arity(0, hist, bad)
    elif "runtime" in d: runtime_failures(0, hist, bad)
    else: adapters(0, hist, bad)
    for b in bad[:5]: print(b[1])
    return bool(bad)
