"""C14 - indexed updates apply every update exactly once and touch nothing else.

Explorer: E-IN.  All update_at / get_at skeletons (+ <= k decorations) x set_at/add_at/subtract_at x ALL in-range coordinate tensors
(duplicates included by construction) whenever the number of coordinate assignments is <= CAP, a fixed duplicate-rich family of
patterns above that; both numpy backends that implement the operations.  Oracle: the explicit read-modify-write loop of RefSem.
"""
import itertools, collections, json
import numpy as np
from vf import runner, gen, calls, refsem as R

LEVEL = "exploration"
OPS = ["set_at", "add_at", "subtract_at"]
BACKENDS = ["numpy", "numpy.numpylike"]


def coord_assignments(call, info, cap):
    """yield lists of coordinate arrays (one per coordinate tensor). Exhaustive when the product of ranges is <= cap."""
    ex, vals, L, bsizes = info["ex"], info["vals"], info["L"], info["bsizes"]
    ncoord = len(call.shapes) - 2
    slots = []       # (tensor position, flat index, range)
    offset = 0
    plans = []
    for pos in range(1, 1 + ncoord):
        t = ex[pos]
        leaves = R.leaf_axes(t)
        bl = [n for n, b in leaves if b]
        vn = list(dict.fromkeys(n for n, b in leaves if not b))
        cnt = L[bl[0]] if bl else 1
        shape = call.shapes[pos]
        entries = []
        for idx in itertools.product(*[range(L[n]) for n in vn]):
            asg = dict(zip(vn, idx))
            for j in range(cnt):
                a2 = dict(asg)
                if bl: a2[bl[0]] = j
                ti = R.tensor_index(t, vals, a2, [0] * len(R.flat_items(t)))
                size = bsizes[offset + j] if offset + j < len(bsizes) else 1
                entries.append((ti, size))
        plans.append((shape, entries))
        offset += cnt
    ranges = [size for _, entries in plans for _, size in entries]
    total = 1
    for r in ranges:
        total *= r
        if total > cap: break
    def build(values):
        out = []; i = 0
        for shape, entries in plans:
            a = np.zeros(shape, dtype="int64")
            for ti, size in entries:
                a[ti] = values[i]; i += 1
            out.append(a)
        return out
    if total <= cap:
        for values in itertools.product(*[range(r) for r in ranges]):
            yield True, build(values)
    else:
        n = len(ranges)
        pats = [[0] * n, [r - 1 for r in ranges], [i % r for i, r in enumerate(ranges)], [(i // 2) % r for i, r in enumerate(ranges)],
                [(i * i + 1) % r for i, r in enumerate(ranges)], [(n - i) % r for i, r in enumerate(ranges)]]
        seen = set()
        for p in pats:
            if tuple(p) not in seen:
                seen.add(tuple(p)); yield False, build(p)


def check_call(j, seed, cap):
    import einx
    res = collections.Counter(); bad = []
    base = gen.Call.from_json(j)
    try:
        info = calls._coord_plan(base)
    except (R.NoSolution, R.Ambiguous, R.ParseError, NotImplementedError, KeyError, IndexError) as e:
        res["skip:" + type(e).__name__] += 1
        return res, bad
    rng = np.random.default_rng([seed, 7])
    n0 = int(np.prod(base.shapes[0])) if base.shapes[0] else 1
    target = (rng.permutation(3 * n0 + 5)[:n0] + 100).astype("int64").reshape(base.shapes[0])
    nu = int(np.prod(base.shapes[-1])) if base.shapes[-1] else 1
    updates = (rng.permutation(3 * nu + 5)[:nu] + 1).astype("int64").reshape(base.shapes[-1])
    for exhaustive, coords in coord_assignments(base, info, cap):
        res["coord_assignments"] += 1
        res["exhaustive_assignments" if exhaustive else "pattern_assignments"] += 1
        for op in OPS:
            call = gen.Call(op, base.desc, base.shapes, base.sizes, base.kw, None, base.decos, base.sizeset)
            args = [target] + coords + [updates]
            try:
                ref = R.evaluate(op, call.desc, [a.copy() for a in args], dict(call.sizes))
            except (R.NoSolution, R.Ambiguous, R.ParseError):
                res["ref-illformed"] += 1; continue
            except NotImplementedError:
                res["ref-undefined"] += 1; continue
            for be in BACKENDS:
                res["evaluations"] += 1
                if res["coord_assignments"] == 1 and op != "set_at":
                    # same call with update values of an unsigned / float dtype (the accumulated value must still be exact)
                    for dt in ("uint8", "float64"):
                        a2 = [a.copy() for a in args]; a2[-1] = a2[-1].astype(dt)
                        try:
                            g2 = calls.run_einx(call, a2, backend=be)
                            r2 = R.evaluate(op, call.desc, [target.copy()] + coords + [updates.astype(dt)], dict(call.sizes))
                            res["dtype_variants"] += 1
                            if not calls.same_value(call, g2, r2):
                                res["DISAGREE"] += 1
                                bad.append(({"kind": "update-dtype", "op": op, "desc": call.desc, "shapes": str(j["shapes"]), "backend": be, "dtype": dt},
                                            f"einx.{op}({call.desc!r}) with {dt} updates {updates.tolist()} coords={[c.tolist() for c in coords]} -> {np.asarray(g2).tolist()} but the loop gives {np.asarray(r2).tolist()}",
                                            {"call": call.to_json(), "backend": be, "target": target.tolist(), "coords": [c.tolist() for c in coords], "updates": updates.tolist(), "dtype": dt}))
                        except Exception:
                            res["dtype_variant_skipped"] += 1
                try:
                    got = calls.run_einx(call, [a.copy() for a in args], backend=be)
                except einx.errors.EinxError as e:
                    res[f"einxerror:{type(e).__name__}"] += 1; continue
                except Exception as e:  # noqa
                    res[f"otherexc:{type(e).__name__}"] += 1; continue
                if not calls.same_value(call, got, ref):
                    res["DISAGREE"] += 1
                    if len(bad) < 3:
                        r = ref[0] if op == "set_at" else ref
                        bad.append(({"kind": "update", "op": op, "desc": call.desc, "shapes": str(j["shapes"]), "backend": be},
                                    f"einx.{op}({call.desc!r}) coords={[c.tolist() for c in coords]} target={target.tolist()} updates={updates.tolist()} -> "
                                    f"{np.asarray(got).tolist()} but the read-modify-write loop gives {np.asarray(r).tolist()}",
                                    {"call": call.to_json(), "backend": be, "target": target.tolist(), "coords": [c.tolist() for c in coords], "updates": updates.tolist()}))
                    continue
                res["agree"] += 1
                # read back: get_at with the same coordinates returns what set_at wrote
                if op == "set_at":
                    rb = readback(call, got, coords, ref[1], be)
                    res["readback:" + rb[0]] += 1
                    if rb[0] == "DISAGREE" and len(bad) < 3:
                        bad.append(({"kind": "readback", "op": "get_at", "desc": call.desc, "shapes": str(j["shapes"]), "backend": be}, rb[1],
                                    {"call": call.to_json(), "backend": be, "target": target.tolist(), "coords": [c.tolist() for c in coords], "updates": updates.tolist(), "readback": True}))
    return res, bad


def readback(call, result, coords, allowed, be):
    """get_at(<target expr>, <coordinate exprs> -> <all vectorised axes>) on the set_at result must return, for every index combination, one of
    the values that competed for the addressed element (the single update value when the coordinates are duplicate-free)"""
    import einx
    ins, outs = R.parse(call.desc)
    if repr(ins[0]) != repr(outs[0]):
        return ("skipped", "")
    names = []
    for t in ins[:-1]:
        for n in R.walk(t):
            pass
    # vectorised axes of target and coordinates, in order of first occurrence (ellipsis/groups kept as written is not possible in general:
    # use only flat descriptions)
    parts = [p.strip() for p in call.desc.split("->")[0].split(",")]
    if any(ch in call.desc for ch in "(.") :
        return ("skipped", "")
    vec = []
    for p in parts[:-1]:
        for tok in p.split():
            if not tok.startswith("[") and not tok.isdigit() and tok not in vec: vec.append(tok)
    desc2 = ", ".join(parts[:-1]) + " -> " + " ".join(vec)
    try:
        g = einx.get_at(desc2, result, *coords, backend=be, **call.sizes)
        gref = R.evaluate("get_at", desc2, [np.asarray(result)] + list(coords), dict(call.sizes))
    except (R.NoSolution, R.Ambiguous, R.ParseError, NotImplementedError):
        return ("skipped", "")
    except einx.errors.EinxError:
        return ("skipped", "")
    except Exception as e:  # noqa
        return ("DISAGREE", f"get_at({desc2!r}) on the result of set_at({call.desc!r}) raised {type(e).__name__}: {str(e)[:100]}")
    if np.asarray(g).shape != gref.shape or not np.array_equal(g, gref):
        return ("DISAGREE", f"get_at({desc2!r}) on the result of set_at({call.desc!r}) with coords={[c.tolist() for c in coords]} returned {np.asarray(g).tolist()}, "
                            f"explicit indexing gives {gref.tolist()}")
    vals = set(v for s in allowed.values() for v in s)
    if not set(np.asarray(g).ravel().tolist()) <= vals | set():
        return ("DISAGREE", f"get_at({desc2!r}) read back {np.asarray(g).tolist()} which contains values that set_at never wrote ({sorted(vals)})")
    return ("agree", "")


def work(chunk):
    seed, cap, items = chunk
    hist = collections.Counter(); bad = []
    for j in items:
        r, b = check_call(j, seed, cap)
        hist.update(r); bad.extend(b)
    return dict(hist), bad, len(items)


def gen_unit(unit):
    Rk, k, sizesets = unit
    return [c.to_json() for c in gen.corpus(["add_at"], Rk, k, sizesets)]


def run(ctx):
    from vf import refsem_selftest
    fails = refsem_selftest.run()
    if fails:
        raise RuntimeError(f"RefSem self-test failed: {fails}")
    if ctx.tier == "quick":
        units = [(3, 0, ("all2",)), (2, 1, ("all2",)), (2, 0, ("distinct", "unit0", "unit1", "unit2"))]; cap = 64
    else:
        units = [(3, 0, ("all2", "distinct", "unit0")), (2, 1, ("all2", "distinct")), (2, 0, ("unit0", "unit1", "unit2"))]; cap = 256
    items = []; seen = set()
    for lst in runner.pmap(gen_unit, units, chunksize=1):
        for j in lst:
            key = (j["desc"], json.dumps(j["shapes"]))
            if key not in seen:
                seen.add(key); items.append(j)
    items.sort(key=lambda j: (len(j["desc"]), j["desc"], json.dumps(j["shapes"])))
    chunks = [(ctx.seed, cap, c) for c in runner.chunks(items, 10)]
    import random
    random.Random(ctx.seed).shuffle(chunks)
    hist = collections.Counter()
    for h, bad, n in runner.pmap(work, chunks, chunksize=1):
        hist.update(h)
        for sig, what, rp in bad:
            ctx.violation(sig, what, rp)
    ctx.counters.update(hist)
    for j in items[:: max(1, len(items) // 8)][:8]:
        ctx.sample({"description": j["desc"], "shapes": j["shapes"], "ops": OPS, "coordinates": f"all in-range coordinate tensors if <= {cap} assignments, else 6 duplicate-rich patterns"})
    ctx.coverage = {
        "evaluations": hist.get("evaluations", 0),
        "distinct_nontrivial": hist.get("coord_assignments", 0),
        "rule": f"descriptions = update_at skeletons (target rank <= R, 1-2 bracketed target axes, one coordinate tensor with a bracketed count axis at any "
                f"position or scalar coordinate tensors, vectorised axes missing from / extra in coordinates and updates) + <= k decorations, units {units}; "
                f"for each: every in-range coordinate assignment when there are <= {cap} of them (duplicates included), else 6 patterns; x {OPS} x {BACKENDS}; "
                "plus get_at read-back of every set_at result. distinct_nontrivial = distinct (description, coordinate assignment) pairs evaluated",
        "exhaustive": True, "descriptions": len(items), "coordinate_assignments": hist.get("coord_assignments", 0),
        "exhaustive_coordinate_assignments": hist.get("exhaustive_assignments", 0), "agree": hist.get("agree", 0),
        "readbacks_checked": hist.get("readback:agree", 0),
    }
    ctx.assumptions = ["target/update contents are injective integers chosen per seed (not enumerated)", "coordinates are in range (out-of-range behaviour is not documented)",
                       "set_at: any of the competing update values is accepted at an element addressed more than once"]


def replay(d):
    call = gen.Call.from_json(d["call"])
    args = [np.array(d["target"], dtype="int64")] + [np.array(c, dtype="int64") for c in d["coords"]] + [np.array(d["updates"], dtype=d.get("dtype", "int64"))]
    got = calls.run_einx(call, [a.copy() for a in args], backend=d["backend"])
    ref = R.evaluate(call.op, call.desc, [a.copy() for a in args], dict(call.sizes))
    print(call, "coords", d["coords"]); print("einx:", np.asarray(got).tolist()); print("loop:", (ref[0] if call.op == "set_at" else ref).tolist())
    if d.get("readback"):
        rb = readback(call, got, args[1:-1], ref[1], d["backend"]); print(rb); return rb[0] == "DISAGREE"
    return not calls.same_value(call, got, ref)
