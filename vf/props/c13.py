"""C13 - tensor factories run once per call, with the resolved shape, only at run time.

Explorer: E-ST / E-IN.  For one operation per family and the small corpus: every non-empty subset of argument positions replaced by an
instrumented factory x every factory signature x every behaviour (full product on single positions, representative pairs on larger
subsets); and ALL histories of length <= 3 over {call, graph=True, rejected call, call with the factory's product as an ordinary tensor}
starting from empty compile caches.  Oracle: the invocation log of the factories and the result of the ordinary call.
"""
import itertools, collections, json
import numpy as np
from vf import runner, gen, calls, refsem as R

LEVEL = "model_checking"
OPS = ["id", "sum", "add", "dot", "get_at", "add_at", "flip", "argmax"]
PLAN_QUICK = [(["id", "sum", "flip", "argmax"], 2, 1), (["add", "dot"], 2, 0), (["add"], 1, 1), (["get_at", "add_at"], 2, 0)]
PLAN_THOROUGH = [(["id", "sum", "flip", "argmax"], 3, 1), (["softmax", "roll", "sort"], 2, 1), (["add", "dot"], 2, 1), (["get_at", "add_at"], 2, 1)]
SIGNATURES = ["shape", "shape,name", "shape,*,arg_index", "shape,name=None,arg_index=None,signature=None", "shape,**kw", "callable-object", "wrapped:shape", "wrapped:shape,name", "builtin"]
BEHAVIOURS = ["correct", "wrong-shape", "wrong-type", "none", "raises"]


class Boom(Exception):
    pass


def make_factory(sig, behaviour, product, log, tag):
    """instrumented factory: logs (tag, shape argument, keyword arguments) on every invocation"""
    def produce(shape):
        if behaviour == "correct": return np.array(product, copy=True)
        if behaviour == "wrong-shape": return np.array(product, copy=True).reshape((1,) + tuple(np.shape(product)))
        if behaviour == "wrong-type": return np.array(product).tolist() if np.ndim(product) else [product]
        if behaviour == "none": return None
        raise Boom("factory failed")
    if sig == "shape":
        def f(shape): log.append((tag, shape, {})); return produce(shape)
    elif sig == "shape,name":
        def f(shape, name): log.append((tag, shape, {"name": name})); return produce(shape)
    elif sig == "shape,*,arg_index":
        def f(shape, *, arg_index): log.append((tag, shape, {"arg_index": arg_index})); return produce(shape)
    elif sig == "shape,name=None,arg_index=None,signature=None":
        def f(shape, name=None, arg_index=None, signature=None):
            log.append((tag, shape, {"name": name, "arg_index": arg_index, "signature": signature})); return produce(shape)
    elif sig == "shape,**kw":
        def f(shape, **kw): log.append((tag, shape, dict(kw))); return produce(shape)
    elif sig.startswith("wrapped:"):
        # a factory under a signature-preserving decorator: the wrapper takes (*args, **kwargs), the declared signature is the wrapped one's
        import functools
        if sig == "wrapped:shape":
            def inner(shape): log.append((tag, shape, {})); return produce(shape)
        else:
            def inner(shape, name): log.append((tag, shape, {"name": name})); return produce(shape)

        @functools.wraps(inner)
        def f(*args, **kwargs):
            return inner(*args, **kwargs)
    elif sig == "callable-object":
        class F:
            def __call__(self, shape): log.append((tag, shape, {})); return produce(shape)
        f = F()
    elif sig == "builtin":
        f = None
    return f


DECLARED = {"shape": set(), "shape,name": {"name"}, "shape,*,arg_index": {"arg_index"}, "shape,name=None,arg_index=None,signature=None": {"name", "arg_index", "signature"},
            "shape,**kw": {"name", "arg_index", "signature"}, "callable-object": set(), "wrapped:shape": set(), "wrapped:shape,name": {"name"}}


def full_sizes(call):
    """factories contribute no constraints: give every named axis its size so that the call stays determined"""
    kw = {}
    for k, v in (call.env or {}).items():
        if k != "...": kw[k] = v
    return kw


def einx_call(call, args, sizes, graph=False, backend=None):
    import einx
    kw = dict(sizes); kw.update(call.kw)
    if graph: kw["graph"] = True
    kw["backend"] = backend or "numpy"      # with factories only there is no tensor to infer the backend from
    args = [np.array(a, copy=True) if isinstance(a, np.ndarray) else a for a in args]      # *_at update their target in place
    return getattr(einx, call.op)(call.desc, *args, **kw)


def check_log(log, positions, call, sig, expect_calls, what):
    """-> error message or None"""
    per = collections.Counter(t for t, _, _ in log)
    for p in positions:
        if per.get(p, 0) != expect_calls:
            return f"{what}: factory at argument {p} invoked {per.get(p, 0)} time(s), expected {expect_calls}"
    for tag, shape, kw in log:
        exp = tuple(call.shapes[tag])
        if not isinstance(shape, tuple) or not all(type(s) is int for s in shape):
            return f"{what}: factory at argument {tag} received shape {shape!r} (type {type(shape).__name__} of {[type(s).__name__ for s in shape]}), expected a tuple of int"
        if shape != exp:
            return f"{what}: factory at argument {tag} received shape {shape}, its expression resolves to {exp}"
        declared = DECLARED[sig]
        if set(kw) - {"name", "arg_index", "signature"}: return f"{what}: factory received unexpected keywords {sorted(kw)}"
        if sig != "shape,**kw" and set(kw) != declared: return f"{what}: factory declaring {sorted(declared)} received keywords {sorted(kw)}"
        if "arg_index" in kw and kw["arg_index"] != tag: return f"{what}: arg_index={kw['arg_index']} for argument {tag}"
        if "name" in kw and kw["name"] != call.op: return f"{what}: name={kw['name']!r} for operation {call.op}"
        if "signature" in kw and kw["signature"] is None and sig != "shape,**kw": return f"{what}: signature keyword declared but None passed"
    return None


def variants_for(npos):
    """(subset, signature, behaviour) triples: full product on single positions, representative pairs on larger subsets"""
    out = []
    for p in range(npos):
        for sig in SIGNATURES[:-1]:
            for beh in BEHAVIOURS:
                out.append(((p,), sig, beh))
        out.append(((p,), "builtin", "correct"))
    for k in range(2, npos + 1):
        for sub in itertools.combinations(range(npos), k):
            # factories of different signatures in one call: each must receive exactly ITS declared keywords
            out.append((sub, "mixed:" + "|".join(["shape", SIGNATURES[3]][i % 2] for i in range(k)), "correct"))
            out.append((sub, "mixed:" + "|".join([SIGNATURES[3], "shape", "shape,**kw"][i % 3] for i in range(k)), "correct"))
            out.append((sub, SIGNATURES[3], "correct"))
            out.append((sub, "shape", "wrong-shape"))
            out.append((sub, "shape,**kw", "correct"))
    return out


def run_variants(call, seed):
    import einx
    hist = collections.Counter(); bad = []
    try:
        args = calls.build_args(call, seed)
    except Exception:
        hist["skip-args"] += 1; return hist, bad
    sizes = full_sizes(call)
    try:
        ref = einx_call(call, [a.copy() for a in args], sizes)
    except Exception:
        hist["skip-ordinary-call-fails"] += 1; return hist, bad
    for sub, sig, beh in variants_for(len(args)):
        log = []
        if sig == "builtin":
            fargs = [np.ones if i in sub else a.copy() for i, a in enumerate(args)]
            try:
                exp = einx_call(call, [np.ones(call.shapes[i]) if i in sub else a.copy() for i, a in enumerate(args)], sizes)
                got = einx_call(call, fargs, sizes)
                ok = calls.same_value(call, got, exp)
            except einx.errors.EinxError:
                hist["builtin:rejected"] += 1; continue
            except Exception as e:  # noqa
                hist[f"builtin:{type(e).__name__}"] += 1; continue
            hist["evaluations"] += 1
            if not ok: bad.append(_v(call, sub, sig, beh, "builtin factory np.ones: result differs from passing np.ones(shape) as a tensor"))
            continue
        sigs = dict(zip(sub, sig[6:].split("|"))) if sig.startswith("mixed:") else {i: sig for i in sub}
        fargs = [make_factory(sigs[i], beh, a, log, i) if i in sub else a.copy() for i, a in enumerate(args)]
        # graph=True first (compiles): no invocation while compiling or for graph=True
        try:
            code = einx_call(call, fargs, sizes, graph=True)
        except einx.errors.EinxError as e:
            hist["rejected"] += 1
            if log: bad.append(_v(call, sub, sig, beh, f"call rejected with {type(e).__name__} but a factory was invoked {len(log)} time(s)"))
            continue
        except Exception as e:  # noqa
            hist[f"graph-raises:{type(e).__name__}"] += 1
            if log: bad.append(_v(call, sub, sig, beh, f"graph=True raised {type(e).__name__} and invoked a factory"))
            continue
        hist["evaluations"] += 1
        if log:
            bad.append(_v(call, sub, sig, beh, f"graph=True invoked a factory {len(log)} time(s)")); continue
        for rep in ("first call", "cached repeat"):
            log.clear()
            try:
                got = einx_call(call, fargs, sizes)
                outcome = "value"
            except Exception as e:  # noqa
                got = None; outcome = type(e).__name__
            hist["evaluations"] += 1
            if beh == "correct":
                if outcome != "value":
                    bad.append(_v(call, sub, sig, beh, f"{rep}: raised {outcome} with well-behaved factories")); break
                msg = None
                for i in sub:
                    msg = msg or check_log([l for l in log if l[0] == i], (i,), call, sigs[i], 1, rep)
                if msg: bad.append(_v(call, sub, sig, beh, msg)); break
                if not calls.same_value(call, got, ref):
                    bad.append(_v(call, sub, sig, beh, f"{rep}: result differs from passing the factory's return value as an ordinary tensor")); break
                hist["agree"] += 1
            else:
                if outcome == "value":
                    bad.append(_v(call, sub, sig, beh, f"{rep}: a factory returning {beh} made the call return a result instead of failing")); break
                hist["misbehaviour-rejected"] += 1
    return hist, bad


def _v(call, sub, sig, beh, msg):
    return ({"kind": "factory", "op": call.op, "desc": call.desc, "positions": str(list(sub)), "signature": sig, "behaviour": beh, "problem": msg.split(":")[0][:60]},
            f"einx.{call.op}({call.desc!r}, shapes={call.shapes}) with factories at {list(sub)} (signature f({sig}), behaviour {beh}): {msg}",
            {"call": call.to_json() | {"env": call.env}, "sub": list(sub), "sig": sig, "beh": beh})


# ------------------------------------------------------------------------------------------------ histories
STEPS = ["call", "graph", "rejected", "tensor", "other-factory"]


def clear_caches():
    from vf.props.c10 import find_caches
    import einx
    for cc in find_caches(einx): cc()


def run_histories(call, seed, depth):
    import einx
    hist = collections.Counter(); bad = []
    try:
        args = calls.build_args(call, seed)
    except Exception:
        return hist, bad
    sizes = full_sizes(call)
    try:
        ref = einx_call(call, [a.copy() for a in args], sizes)
    except Exception:
        return hist, bad
    npos = len(args)
    sub = (npos - 1,)
    sig = SIGNATURES[3]
    # the description must stay determined once the argument is a factory (an anonymous ellipsis cannot be given a size): otherwise the call is
    # legitimately rejected and there is no history to explore; the factory must then never be invoked
    clear_caches()
    log0 = []
    try:
        einx_call(call, [make_factory(sig, "correct", a, log0, i) if i in sub else a.copy() for i, a in enumerate(args)], sizes, graph=True)
    except einx.errors.EinxError:
        hist["history-call-not-determined"] += 1
        if log0: bad.append(_v(call, sub, sig, "rejected", "factory invoked although the call was rejected"))
        return hist, bad
    for h in [h for d in range(1, depth + 1) for h in itertools.product(STEPS, repeat=d)]:
        clear_caches()
        log = []
        fargs = [make_factory(sig, "correct", a, log, i) if i in sub else a.copy() for i, a in enumerate(args)]
        hist["histories"] += 1
        for n, step in enumerate(h):
            log.clear()
            hist["transitions"] += 1
            try:
                if step == "call":
                    got = einx_call(call, fargs, sizes); exp_calls = 1
                    if not calls.same_value(call, got, ref): bad.append(_v(call, sub, sig, "history " + ">".join(h[:n + 1]), "result differs from the ordinary call")); break
                elif step == "graph":
                    einx_call(call, fargs, sizes, graph=True); exp_calls = 0
                elif step == "tensor":
                    got = einx_call(call, [a.copy() for a in args], sizes); exp_calls = 0
                    if not calls.same_value(call, got, ref): bad.append(_v(call, sub, sig, "history " + ">".join(h[:n + 1]), "ordinary call result changed")); break
                elif step == "other-factory":
                    # a different factory of another signature for the same position: must be called with ITS keywords, once
                    log2 = []
                    f2 = [make_factory("shape", "correct", a, log2, i) if i in sub else a.copy() for i, a in enumerate(args)]
                    got = einx_call(call, f2, sizes); exp_calls = 0
                    msg = check_log(log2, sub, call, "shape", 1, "other factory")
                    if msg or not calls.same_value(call, got, ref):
                        bad.append(_v(call, sub, "shape", "history " + ">".join(h[:n + 1]), msg or "result differs")); break
                else:
                    bad_args = list(fargs)
                    nonf = [i for i in range(npos) if i not in sub and args[i].ndim >= 1]
                    if not nonf: continue
                    bad_args[nonf[0]] = np.zeros(args[nonf[0]].shape + (2,), dtype=args[nonf[0]].dtype)
                    try:
                        einx_call(call, bad_args, sizes, graph=True)
                        continue       # the corrupted call still compiles (e.g. an ellipsis absorbs the extra dimension): it is not a rejected call
                    except Exception:
                        pass
                    if log: pass
                    try:
                        einx_call(call, bad_args, sizes)
                        bad.append(_v(call, sub, sig, "history " + ">".join(h[:n + 1]), "a call whose compilation is rejected returned a value")); break
                    except Exception:
                        exp_calls = 0
            except Exception as e:  # noqa
                bad.append(_v(call, sub, sig, "history " + ">".join(h[:n + 1]), f"step {step} raised {type(e).__name__}")); break
            msg = check_log(log, sub, call, sig, exp_calls, f"step {n} ({step})")
            if msg:
                bad.append(_v(call, sub, sig, "history " + ">".join(h[:n + 1]), msg)); break
    return hist, bad


def work(chunk):
    seed, mode, depth, items = chunk
    hist = collections.Counter(); bad = []
    for j in items:
        call = gen.Call.from_json(j); call.env = {k: (tuple(v) if isinstance(v, list) else v) for k, v in j["env"].items()}
        h, b = run_variants(call, seed) if mode == "variants" else run_histories(call, seed, depth)
        hist.update(h); bad.extend(b[:3])
    return dict(hist), bad[:20]


def gen_unit(u):
    ops, Rk, k = u
    return [c.to_json() | {"env": c.env} for c in gen.corpus(ops, Rk, k, ("distinct",))]


def run(ctx):
    plan = PLAN_QUICK if ctx.tier == "quick" else PLAN_THOROUGH
    units = [([op], Rk, k) for ops, Rk, k in plan for op in ops]
    items = []; seen = set()
    for lst in runner.pmap(gen_unit, units, chunksize=1):
        for j in lst:
            key = (j["op"], j["desc"], json.dumps(j["shapes"]))
            if key not in seen and len(j["shapes"]) >= 1:
                seen.add(key); items.append(j)
    items.sort(key=lambda j: (j["op"], len(j["desc"]), j["desc"]))
    hist = collections.Counter()
    chunks = [(ctx.seed, "variants", 0, c) for c in runner.chunks(items, 10)]
    hitems = items[:: max(1, len(items) // (60 if ctx.tier == "quick" else 300))]
    depth = 3
    chunks += [(ctx.seed, "histories", depth, c) for c in runner.chunks(hitems, 2)]
    import random
    random.Random(ctx.seed).shuffle(chunks)
    for h, bad in runner.pmap(work, chunks, chunksize=1):
        hist.update(h)
        for sig, what, rp in bad: ctx.violation(sig, what, rp)
    ctx.counters.update(hist)
    for j in items[:: max(1, len(items) // 6)][:6]:
        ctx.sample({"call": f"einx.{j['op']}({j['desc']!r})", "shapes": j["shapes"], "factory_variants": "every position x 6 signatures x 5 behaviours (+ builtin), larger subsets with 3 representative variants"})
    ctx.sample({"history": ["tensor", "graph", "call"], "checked": "invocations per step 0,0,1; shapes; keywords; result == ordinary call"})
    ctx.coverage = {
        "states": hist.get("histories", 0) + len(items), "transitions": hist.get("transitions", 0) + hist.get("evaluations", 0), "traces_validated_against_impl": hist.get("histories", 0),
        "exhaustive": True, "calls": len(items), "factory_variant_evaluations": hist.get("evaluations", 0), "histories": hist.get("histories", 0), "history_depth": depth,
        "rule": f"calls = corpus {plan} (distinct sizes, all sizes passed as keywords); variants as in samples; for each variant: graph=True (0 invocations), first call and cached repeat "
                "(exactly 1 invocation each, tuple-of-int shape == resolved shape, keywords == declared subset of name/arg_index/signature, result == ordinary call), misbehaving "
                f"factories must make the call fail; histories: all sequences of length <= {depth} over {STEPS} from empty compile caches on a spread of {len(hitems)} calls. "
                "states = histories + calls, transitions = history steps + variant evaluations",
    }
    ctx.assumptions = ["compile caches are emptied through cache_clear() of every einx operation before each history", "the factory returns exactly the array the ordinary call is given"]


def replay(d):
    j = d["call"]
    call = gen.Call.from_json(j); call.env = {k: (tuple(v) if isinstance(v, list) else v) for k, v in j["env"].items()}
    h, bad = run_variants(call, 0)
    h2, bad2 = run_histories(call, 0, 3) if str(d.get("beh", "")).startswith("history") else ({}, [])
    hits = [b for b in bad + bad2 if b[2]["sub"] == d["sub"] and b[2]["sig"] == d["sig"] and b[2]["beh"] == d["beh"]]
    for b in hits: print(b[1])
    return bool(hits)
