"""C06 - a call's outcome does not depend on earlier calls (cache transparency).

Explorer: E-ST.  ALL histories up to the length bound over an alphabet of calls chosen to collide under Python hashing/equality and to
fail at every stage, each executed on a pristine einx (the package is deleted from sys.modules and re-imported before every history).
Invariant after every history: the outcome of the last call equals the outcome of that call as the only call on a pristine einx, which
itself equals its outcome in a really fresh interpreter.
"""
import sys, os, ast, json, itertools, collections, subprocess, hashlib
import numpy as np
from vf import runner

LEVEL = "model_checking"


def fresh_einx():
    for k in [k for k in sys.modules if k == "einx" or k.startswith("einx.")]:
        del sys.modules[k]
    import einx
    return einx


# ------------------------------------------------------------------------------------------------ alphabet
def _x(): return np.arange(6).reshape(2, 3)
def fac(shape): return np.ones(shape)
def fac_named(shape, name=None): return np.full(shape, 2.0)
def badfac(shape): return np.ones((1,) + tuple(shape))
def nonefac(shape): return None


class Sub(np.ndarray):
    pass


def mysum(x, axis=None, *, scale=1):
    return np.sum(x, axis=axis) * scale


def _with(e):
    with e.backend.get("numpy.einsum"):
        return e.id("a b -> b a", _x(), graph=True)


def _with_raise(e):
    try:
        with e.backend.get("numpy.einsum"):
            e.id("a b c -> b a", _x())
    except e.errors.EinxError:
        pass
    return e.id("a b -> b a", _x(), graph=True)


def _with_unsupported(e):
    try:
        with e.backend.get("numpy.einsum"):
            e.max("a [b]", _x())
    except e.errors.EinxError:
        pass
    return e.max("a [b]", _x())


def _nested_with(e):
    with e.backend.get("numpy.einsum"):
        with e.backend.get("numpy"):
            r1 = e.id("a b -> b a", _x(), graph=True)
        r2 = e.id("a b -> b a", _x(), graph=True)
    return r1 + "\n#####\n" + r2


def mymax(x, axis=None):
    return np.max(x, axis=axis)


def myadd(a, b):
    return a + b


def fac_sig(shape, signature=None):
    return np.full(shape, float(len(signature.exprs_in)))


def _persistent(e, key, make):
    """an adapter that lives as long as this einx instance (so that later history steps hit ITS compile cache)"""
    store = e.__dict__.setdefault("_vf_store", {})
    if key not in store:
        store[key] = make()
    return store[key]


ALPHABET = {
    "adaptA(sum)": lambda e: _persistent(e, "A", lambda: e.numpy.adapt_numpylike_reduce(mysum))("a [b]", _x()),
    "adaptB(max)": lambda e: _persistent(e, "B", lambda: e.numpy.adapt_numpylike_reduce(mymax))("a [b]", _x()),
    "adaptC(add)": lambda e: _persistent(e, "C", lambda: e.numpy.adapt_numpylike_elementwise(myadd))("a b, b", _x(), np.ones(3)),
    "add fac_sig": lambda e: e.add("a b, b", _x(), fac_sig),
    "id c=2": lambda e: e.id("a b -> a b c", _x(), c=2),
    "id c=2.0": lambda e: e.id("a b -> a b c", _x(), c=2.0),
    "id c=1": lambda e: e.id("a b -> a b c", _x(), c=1),
    "id c=True": lambda e: e.id("a b -> a b c", _x(), c=True),
    "id c=np2": lambda e: e.id("a b -> a b c", _x(), c=np.int64(2)),
    "id c=arr2": lambda e: e.id("a b -> a b c", _x(), c=np.array(2)),
    "id c=f64(2)": lambda e: e.id("a b -> a b c", _x(), c=np.float64(2)),
    "id c='2'": lambda e: e.id("a b -> a b c", _x(), c="2"),
    "id ds=[1,1]": lambda e: e.id("a b -> a b ds...", _x(), ds=[1, 1]),
    "id ds=(1,1)": lambda e: e.id("a b -> a b ds...", _x(), ds=(1, 1)),
    "id ds=arr": lambda e: e.id("a b -> a b ds...", _x(), ds=np.array([1, 1])),
    "id ds=[1.0,1.0]": lambda e: e.id("a b -> a b ds...", _x(), ds=[1.0, 1.0]),
    "id ds=1": lambda e: e.id("a b -> a b ds...", _x(), ds=1),
    "roll 1": lambda e: e.roll("a [b]", _x(), shift=1),
    "roll 1.0": lambda e: e.roll("a [b]", _x(), shift=1.0),
    "roll True": lambda e: e.roll("a [b]", _x(), shift=True),
    "roll (1,)": lambda e: e.roll("a [b]", _x(), shift=(1,)),
    "roll [1]": lambda e: e.roll("a [b]", _x(), shift=[1]),
    "sum kd=True": lambda e: e.sum("a [b]", _x(), keepdims=True),
    "sum kd=1": lambda e: e.sum("a [b]", _x(), keepdims=1),
    "sum kd=False": lambda e: e.sum("a [b]", _x(), keepdims=False),
    "sum kd=0": lambda e: e.sum("a [b]", _x(), keepdims=0),
    "sum kd=None": lambda e: e.sum("a [b]", _x()),
    "add arr": lambda e: e.add("a b, b", _x(), np.ones(3)),
    "add fac": lambda e: e.add("a b, b", _x(), fac),
    "add fac_named": lambda e: e.add("a b, b", _x(), fac_named),
    "add badfac": lambda e: e.add("a b, b", _x(), badfac),
    "add nonefac": lambda e: e.add("a b, b", _x(), nonefac),
    "add lambda": lambda e: e.add("a b, b", _x(), lambda shape: np.full(shape, 3.0)),
    "add tmpfac(shape)": lambda e: e.add("a b, b", _x(), (lambda shape: np.full(shape, 5.0))),
    "add tmpfac(shape,name)": lambda e: e.add("a b, b", _x(), (lambda shape, name: np.full(shape, float(len(name))))),
    "add tmpfac(shape,**kw)": lambda e: e.add("a b, b", _x(), (lambda shape, **kw: np.full(shape, float(len(kw))))),
    "add tmpfac(shape,arg_index)": lambda e: e.add("a b, b", _x(), (lambda shape, arg_index=None: np.full(shape, float(arg_index)))),
    "add scalar": lambda e: e.add("a b, ", _x(), 1),
    "add scalar f": lambda e: e.add("a b, ", _x(), 1.0),
    "add scalar True": lambda e: e.add("a b, ", _x(), True),
    "add 0d": lambda e: e.add("a b, ", _x(), np.array(1)),
    "add 0d f": lambda e: e.add("a b, ", _x(), np.array(1.0)),
    "add sub": lambda e: e.add("a b, b", _x().view(Sub), np.ones(3)),
    "add farr": lambda e: e.add("a b, b", _x().astype("float32"), np.ones(3)),
    "add int-arr": lambda e: e.add("a b, b", _x(), np.ones(3, dtype="int64")),
    "graph": lambda e: e.id("a b -> b a", _x(), graph=True),
    "graph einsum": lambda e: e.id("a b -> b a", _x(), graph=True, backend="numpy.einsum"),
    "id plain": lambda e: e.id("a b -> b a", _x()),
    "graph add fac": lambda e: e.add("a b, b", _x(), fac, graph=True),
    "graph add arr": lambda e: e.add("a b, b", _x(), np.ones(3), graph=True),
    "syntaxerr": lambda e: e.id("a b -> (b a", _x()),
    "rankerr": lambda e: e.id("a b c -> b a", _x()),
    "sizeerr": lambda e: e.id("a b -> a b", _x(), a=3),
    "semerr": lambda e: e.sum("a [b] -> a b", _x()),
    "valueerr": lambda e: e.id("a b, c -> b a", _x()),
    "runtime-err": lambda e: e.subtract("a b, c", _x(), np.ones(3)),
    "with-einsum": _with,
    "with-raise": _with_raise,
    "with-unsupported": _with_unsupported,
    "nested-with": _nested_with,
    "max": lambda e: e.max("a [b]", _x()),
    "max einsum": lambda e: e.max("a [b]", _x(), backend="numpy.einsum"),
    "matches": lambda e: e.matches("a b", _x()),
    "matches bad": lambda e: e.matches("a b c", _x()),
    "solve_axes": lambda e: e.solve_axes("a b", _x()),
    "solve_axes b=3.0": lambda e: e.solve_axes("a b", _x(), b=3.0),
    "solve_axes b=3": lambda e: e.solve_axes("a b", _x(), b=3),
    "adapt scale=2": lambda e: e.numpy.adapt_numpylike_reduce(mysum)("a [b]", _x(), scale=2),
    "adapt scale=2.0": lambda e: e.numpy.adapt_numpylike_reduce(mysum)("a [b]", _x(), scale=2.0),
    "adapt scale=True": lambda e: e.numpy.adapt_numpylike_reduce(mysum)("a [b]", _x(), scale=True),
    "get_at int": lambda e: e.get_at("[a] b, i -> i b", _x(), np.array([1, 0, 1])),
    "get_at float": lambda e: e.get_at("[a] b, i -> i b", _x(), np.array([1.0, 0.0, 1.0])),
    "get_at scalar": lambda e: e.get_at("[a] b,  -> b", _x(), 1),
    "dot": lambda e: e.dot("a [b], [b] c -> a c", _x(), np.ones((3, 2))),
}
CONSTS = ["adaptA(sum)", "adaptB(max)", "adaptC(add)", "add fac_sig", "add fac_named", "graph", "sum kd=True"]       # calls whose generated code embeds constants
SUB = ["id c=2", "id c=2.0", "id c=True", "id c=1", "roll 1", "roll 1.0", "sum kd=True", "sum kd=1", "add arr", "add fac", "add badfac", "add scalar", "add scalar f",
       "graph", "rankerr", "semerr", "with-einsum", "with-raise", "adapt scale=2", "adapt scale=2.0"]


def norm_code(text):
    """generated source up to variable naming: assigned names, parameters and function names are renumbered by first occurrence"""
    try:
        tree = ast.parse(text)
    except SyntaxError:
        return text
    names = {}
    def nm(n):
        return names.setdefault(n, f"v{len(names)}")
    bound = set()
    for node in ast.walk(tree):
        if isinstance(node, ast.FunctionDef):
            bound.add(node.name)
            for a in node.args.args + node.args.kwonlyargs: bound.add(a.arg)
        elif isinstance(node, ast.Name) and isinstance(node.ctx, ast.Store): bound.add(node.id)
        elif isinstance(node, (ast.Import, ast.ImportFrom)):
            pass
    class T(ast.NodeTransformer):
        def visit_Name(self, node):
            if node.id in bound: node.id = nm(node.id)
            return node
        def visit_arg(self, node):
            node.arg = nm(node.arg); return node
        def visit_FunctionDef(self, node):
            node.name = nm(node.name); self.generic_visit(node); return node
    return ast.unparse(T().visit(tree))


def outcome(f, e):
    try:
        r = f(e)
    except BaseException as ex:  # noqa
        if isinstance(ex, (KeyboardInterrupt, runner.Timeout)): raise
        return ["raise", type(ex).__name__]
    if isinstance(r, str):
        return ["code", hashlib.md5(norm_code(r).encode()).hexdigest(), len(r)]
    return ["value", repr(runner.freeze_value(r))]


def invariants(e):
    bad = []
    from importlib import import_module
    g = import_module("einx._src.tracer.graph")
    dep = getattr(g, "_dependon", None)
    st = getattr(dep, "stack", None)
    if st: bad.append(f"tracer dependency stack not empty: {len(st)}")
    reg = import_module("einx._src.frontend.backend").registry
    if reg.state.use_stack: bad.append(f"use_stack not restored: {[b.name for b in reg.state.use_stack]}")
    return bad


def state_of(e):
    """canonical, property-relevant state: per-operation compile-cache sizes, with-stack, registry memo"""
    sizes = []
    from importlib import import_module
    for name in sorted(vars(e)):
        f = getattr(e, name)
        cl = getattr(f, "__closure__", None)
        if not cl: continue
        for c in cl:
            try:
                w = c.cell_contents
            except ValueError:
                continue
            info = getattr(getattr(w, "__wrapped__", None), "cache_info", None)
            if info is not None:
                sizes.append((name, info().currsize))
    reg = import_module("einx._src.frontend.backend").registry
    return (tuple(sizes), tuple(b.name for b in reg.state.use_stack), len(reg.state.tensortypes_to_backend), len(reg.state.backends))


def run_history(hist):
    e = fresh_einx()
    out = None
    for k in hist:
        out = outcome(ALPHABET[k], e)
    return out, invariants(e), state_of(e)


def work(hists):
    res = []
    for h in hists:
        try:
            with runner.time_limit(120):
                res.append((h,) + run_history(h))
        except runner.Timeout:
            res.append((h, ["timeout"], [], None))
    return res


def fresh_interpreter_outcomes(keys, cache_env=None):
    """one real interpreter per call (the specification of 'fresh interpreter')"""
    env = dict(os.environ); env["PYTHONHASHSEED"] = "0"
    if cache_env is not None: env["EINX_CACHE_SIZE"] = cache_env
    else: env.pop("EINX_CACHE_SIZE", None)
    procs = {}
    out = {}
    keys = list(keys)
    maxpar = 6
    i = 0
    running = []
    while i < len(keys) or running:
        while i < len(keys) and len(running) < maxpar:
            k = keys[i]; i += 1
            p = subprocess.Popen([sys.executable, "-W", "ignore", "-m", "vf.props.c06", "--one", k], stdout=subprocess.PIPE, stderr=subprocess.DEVNULL, env=env,
                                 cwd=runner.ROOT)
            running.append((k, p))
        k, p = running.pop(0)
        so, _ = p.communicate(timeout=300)
        line = [l for l in so.decode().splitlines() if l.startswith("OUTCOME ")]
        out[k] = json.loads(line[-1][8:]) if line else ["no-output"]
    return out


def explore(ctx, alphabet, depth, cache_env, fresh, warn_env=None):
    if cache_env is None: os.environ.pop("EINX_CACHE_SIZE", None)
    else: os.environ["EINX_CACHE_SIZE"] = cache_env
    if warn_env is None: os.environ.pop("EINX_WARN_ON_RETRACE", None)
    else: os.environ["EINX_WARN_ON_RETRACE"] = warn_env
    hists = [tuple(h) for d in range(1, depth + 1) for h in itertools.product(alphabet, repeat=d)]
    chunks = list(runner.chunks(hists, 24))
    import random
    random.Random(ctx.seed).shuffle(chunks)
    single = {}
    results = []
    for res in runner.pmap(work, chunks, chunksize=1):
        for h, out, inv, st in res:
            results.append((h, out, inv, st))
            if len(h) == 1: single[h[0]] = out
    states = set(); transitions = 0; outcomes = collections.defaultdict(set)
    for h, out, inv, st in results:
        transitions += len(h); states.add(st); outcomes[h[-1]].add(json.dumps(out))
        tag = (f"EINX_CACHE_SIZE={cache_env}" if cache_env is not None else "default cache") + (f", EINX_WARN_ON_RETRACE={warn_env}" if warn_env else "")
        if out != single.get(h[-1]):
            ctx.violation({"kind": "history", "last": h[-1], "history": " ; ".join(h[:-1]), "cache": str(cache_env), "got": out[0], "expected": (single.get(h[-1]) or ["?"])[0]},
                          f"[{tag}] after {list(h[:-1])} the call '{h[-1]}' gives {out[:2]} but {single.get(h[-1], ['?'])[:2]} as the only call on a pristine einx",
                          {"history": list(h), "cache": cache_env, "warn": warn_env})
        for b in inv:
            ctx.violation({"kind": "leak", "history": " ; ".join(h), "cache": str(cache_env), "what": b.split(":")[0]}, f"[{tag}] after {list(h)}: {b}", {"history": list(h), "cache": cache_env, "leak": True})
    for k, o in single.items():
        if k in fresh and fresh[k] != o:
            ctx.violation({"kind": "reimport-vs-fresh", "last": k, "cache": str(cache_env)},
                          f"'{k}' gives {o[:2]} on a re-imported einx but {fresh[k][:2]} in a fresh interpreter", {"history": [k], "cache": cache_env, "fresh": True})
    return len(hists), transitions, states, outcomes


def run(ctx):
    keys = list(ALPHABET)
    fresh = fresh_interpreter_outcomes(keys)
    total = trans = 0; states = set(); outs = collections.defaultdict(set)
    # (alphabet, depth, EINX_CACHE_SIZE, EINX_WARN_ON_RETRACE): the retrace-warning wrapper sits between the cache and the traced function
    plans = [(keys, 2, None, None), (SUB, 2, None, "2"), (CONSTS, 3, None, None)] if ctx.tier == "quick" else [(CONSTS, 4, None, None), (CONSTS, 3, "1", None), (keys, 2, None, None), (SUB, 3, None, None), (keys, 2, "0", None), (keys, 2, "1", None), (SUB, 3, "1", None),
                                                                                      (SUB, 3, None, "2"), (SUB, 2, None, "1"), (SUB, 3, None, "3")]
    for alphabet, depth, cache_env, warn_env in plans:
        fr = fresh if cache_env is None else fresh_interpreter_outcomes(alphabet, cache_env)
        if warn_env is not None: fr = {}
        n, t, st, oc = explore(ctx, alphabet, depth, cache_env, fr, warn_env)
        total += n; trans += t; states |= {(cache_env, s) for s in st}
        for k, v in oc.items(): outs[k] |= v
    os.environ.pop("EINX_CACHE_SIZE", None); os.environ.pop("EINX_WARN_ON_RETRACE", None)
    ctx.counters["calls_with_more_than_one_outcome_over_histories"] = sum(1 for v in outs.values() if len(v) > 1)
    ctx.counters["fresh_interpreter_references"] = len(fresh)
    for h in [("id c=2", "id c=2.0"), ("roll 1", "roll 1.0"), ("with-raise", "graph"), ("add fac", "add arr")]:
        ctx.sample({"history": list(h), "checked": "outcome of the last call == outcome as only call on pristine einx == fresh interpreter"})
    ctx.coverage = {
        "states": len(states), "transitions": trans, "traces_validated_against_impl": total, "exhaustive": True,
        "alphabet": len(keys), "histories": total, "plans": [(len(a), d, c, w) for a, d, c, w in plans],
        "rule": "all call histories of length <= depth over the alphabet (no deduplication of histories), each on a re-imported pristine einx; state = per-operation "
                "compile-cache sizes + with-stack + registry memo size (reported only); oracle: last outcome == single-call outcome == fresh-interpreter outcome",
    }
    ctx.assumptions = ["pristine einx = package removed from sys.modules and re-imported (every module-level object of einx re-created); third-party state (numpy, sympy) is not reset, "
                       "therefore single-call outcomes are additionally compared with one really fresh interpreter per call",
                       "text outcomes are compared up to variable naming (assigned names renumbered)"]


def replay(d):
    if d.get("cache") is None: os.environ.pop("EINX_CACHE_SIZE", None)
    else: os.environ["EINX_CACHE_SIZE"] = d["cache"]
    if d.get("warn") is None: os.environ.pop("EINX_WARN_ON_RETRACE", None)
    else: os.environ["EINX_WARN_ON_RETRACE"] = d["warn"]
    h = tuple(d["history"])
    out, inv, _ = run_history(h)
    single, _, _ = run_history(h[-1:])
    print("history", h, "->", out[:2], "; alone ->", single[:2], "; invariants", inv)
    if d.get("leak"): return bool(inv)
    if d.get("fresh"):
        fr = fresh_interpreter_outcomes([h[-1]], d.get("cache"))
        print("fresh interpreter ->", fr[h[-1]][:2]); return fr[h[-1]] != single
    return out != single


if __name__ == "__main__":
    if len(sys.argv) >= 3 and sys.argv[1] == "--one":
        runner.setup_env()
        import warnings; warnings.simplefilter("ignore")
        import einx
        print("OUTCOME " + json.dumps(outcome(ALPHABET[sys.argv[2]], einx)))
