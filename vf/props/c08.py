"""C08 - results depend on axis names/positions only as the notation says (equivariance); inversion and composition of rearrangements.

Explorer: E-IN.  For every corpus call: all renamings from a fixed set of bijections, every admissible permutation of the top-level items
of each input (tensor transposed accordingly), every admissible permutation of the output items (result transposed accordingly), every
grouping of two adjacent un-bracketed input items (tensor reshaped).  For einx.id: over the axis multiset {a:2, b:3, c:2} ALL expressions
(every permutation x every grouping into runs) give all ordered pairs (inversion) and all triples (composition).
Oracle: the stated relation between the outcomes of the related calls (bytes-equal integers), no reference semantics involved.
"""
import itertools, collections, json, re
import numpy as np
from vf import runner, gen, calls

LEVEL = "exploration"
RENAMINGS = [      # (targets avoid x, y, mask, tensor, shift: einx.where / roll / ... take parameters of these names, so no size could be passed for such an axis)
    {"a": "z", "b": "w", "c": "v", "d": "t", "i": "a", "u": "s", "y": "b", "z": "c", "m": "k"},       # reverses alphabetical order
    {"a": "b", "b": "c", "c": "d", "d": "a", "i": "u", "u": "i", "y": "z", "z": "q", "m": "n"},       # cyclic shift
    {"a": "axis_with_a_long_name", "b": "B2", "c": "_c", "d": "dd", "i": "index", "u": "unit", "y": "yy", "z": "Zz", "m": "M_"},
]


def rename_desc(desc, m):
    return re.sub(r"[A-Za-z_][A-Za-z0-9_]*", lambda mo: m.get(mo.group(0), mo.group(0)), desc)


def outcome(f):
    import einx
    try:
        return ("value", f())
    except einx.errors.EinxError as e:
        return ("raise", type(e).__name__)
    except Exception as e:  # noqa
        return ("raise", type(e).__name__)


def eq(call, a, b):
    if a[0] != b[0]: return False
    if a[0] == "raise": return a[1] == b[1]
    return calls.same_value(call, a[1], b[1])


def admissible_perms(items, maxn=24):
    """permutations of top-level items in which bracketed items (and items containing brackets / ellipses) keep their relative order"""
    n = len(items)
    fixed = [i for i, it in enumerate(items) if it[0] == "e" or any(l[2] for l in gen.leaves([it])) or it[0] == "c"]
    out = []
    for p in itertools.permutations(range(n)):
        if [i for i in p if i in fixed] != fixed: continue
        if list(p) == list(range(n)): continue
        out.append(p)
        if len(out) >= maxn: break
    return out


def top_dims(items, env_vals):
    """number of tensor dimensions each top-level item occupies (ellipsis: its repetition count)"""
    return None


def work(chunk):
    import einx
    seed, items = chunk
    hist = collections.Counter(); bad = []
    for dj in items:
        d = gen.Desc(dj["op"], tuple(map(_t, dj["ins"])), tuple(map(_t, dj["outs"])), {k: (tuple(v) if isinstance(v, list) else v) for k, v in dj["env"].items()}, dj["join"], dj["kw"], tuple(dj["decos"]))
        for ss in ("distinct", "all2"):
            call = gen.materialize(d, ss)
            if call is None: continue
            try:
                args = calls.build_args(call, seed)
            except Exception:
                hist["skip-args"] += 1; continue
            for be in (None, "numpy.numpylike"):
                sizes = dict(call.sizes)
                if be: sizes["backend"] = be
                base = outcome(lambda: getattr(einx, d.op)(call.desc, *[a.copy() for a in args], **sizes, **call.kw))
                if base[0] == "value": hist["base-values"] += 1

                def report(rel, desc2, detail):
                    hist["DIFFER"] += 1
                    if len(bad) < 40:
                        bad.append(({"kind": "equivariance", "relation": rel, "op": d.op, "desc": call.desc, "shapes": str(call.shapes)},
                                    f"[{rel}] einx.{d.op}({call.desc!r}, shapes={call.shapes}) vs {desc2!r}: {detail}", {"desc": dj, "relation": rel, "sizeset": ss}))
                # (a) renaming
                for m in RENAMINGS:
                    desc2 = rename_desc(call.desc, m)
                    sizes2 = {m.get(k, k): v for k, v in sizes.items()}
                    o = outcome(lambda: getattr(einx, d.op)(desc2, *[a.copy() for a in args], **sizes2, **call.kw))
                    hist["relations"] += 1; hist["renaming"] += 1
                    if not eq(call, base, o): report("renaming", desc2, f"{base[0]} vs {o[0]} {o[1] if o[0] == 'raise' else ''}")
                if base[0] != "value": continue
                # (b) permuting the items of one input together with the tensor (only flat inputs: one dimension per item)
                for ti, t in enumerate(d.ins):
                    if any(it[0] == "e" for it in t) or len(t) != len(call.shapes[ti]): continue
                    for p in admissible_perms(t):
                        d2 = gen._replace_tensor(d, 0, ti, tuple(t[i] for i in p))
                        desc2 = gen.show(d2)
                        if gen.OP_FAMILY[d.op] == "update_at" and ti == 0: continue     # the default relation for the in-place target involves the output expression too
                        args2 = [a.copy() for a in args]; args2[ti] = np.array(np.transpose(args[ti], p), copy=True, order="C")     # a real copy: *_at write into their first argument
                        o = outcome(lambda: getattr(einx, d.op)(desc2, *args2, **sizes, **call.kw))
                        hist["relations"] += 1; hist["input-permutation"] += 1
                        if gen.OP_FAMILY[d.op] == "update_at" and ti == 0: continue     # the default relation for the in-place target involves the output expression too
                        if not eq(call, base, o): report("input-permutation", desc2, f"{o[0]} {o[1] if o[0] == 'raise' else 'values differ'}")
                # (c) permuting the items of the output permutes the result
                for ti, t in enumerate(d.outs):
                    if len(d.outs) != 1 or any(it[0] == "e" for it in t): continue
                    res = np.asarray(base[1])
                    if len(t) != res.ndim: continue
                    for p in admissible_perms(t):
                        d2 = gen._replace_tensor(d, 1, ti, tuple(t[i] for i in p))
                        desc2 = gen.show(d2)
                        o = outcome(lambda: getattr(einx, d.op)(desc2, *[a.copy() for a in args], **sizes, **call.kw))
                        hist["relations"] += 1; hist["output-permutation"] += 1
                        exp = ("value", np.transpose(res, p))
                        if gen.OP_FAMILY[d.op] == "update_at":
                            continue
                        if not eq(call, exp, o): report("output-permutation", desc2, f"{o[0]} {o[1] if o[0] == 'raise' else 'values differ from the transposed result'}")
                # (d) grouping two adjacent un-bracketed items of an input (tensor reshaped)
                for ti, t in enumerate(d.ins):
                    if any(it[0] == "e" for it in t) or len(t) != len(call.shapes[ti]): continue
                    for i in range(len(t) - 1):
                        if any(l[2] for l in gen.leaves([t[i], t[i + 1]])) or t[i][0] == "c" or t[i + 1][0] == "c": continue
                        names = gen.names_of([t[i], t[i + 1]])
                        d2 = gen._replace_tensor(d, 0, ti, t[:i] + (("g", (t[i], t[i + 1])),) + t[i + 2:])
                        desc2 = gen.show(d2)
                        sh = call.shapes[ti]
                        if gen.OP_FAMILY[d.op] == "update_at" and ti == 0: continue
                        args2 = [a.copy() for a in args]; args2[ti] = args[ti].reshape(sh[:i] + (sh[i] * sh[i + 1],) + sh[i + 2:]).copy()
                        sizes2 = dict(sizes)
                        for n in names:
                            if n in (call.env or {}) and not isinstance(call.env[n], tuple): sizes2[n] = call.env[n]
                        o = outcome(lambda: getattr(einx, d.op)(desc2, *args2, **sizes2, **call.kw))
                        hist["relations"] += 1; hist["regrouping"] += 1
                        if gen.OP_FAMILY[d.op] == "update_at" and ti == 0: continue
                        if o[0] == "raise" and o[1] in ("AxisSizeError",):
                            hist["regrouping-underdetermined"] += 1; continue
                        if not eq(call, base, o): report("regrouping", desc2, f"{o[0]} {o[1] if o[0] == 'raise' else 'values differ'}")
    return dict(hist), bad


# ------------------------------------------------------------------------------------------------ id: inversion and composition
def id_expressions():
    """every permutation of (a, b, c) x every grouping of the three axes into contiguous runs"""
    out = []
    for p in itertools.permutations("abc"):
        for cut in itertools.product((0, 1), repeat=2):
            runs = [[p[0]]]
            for i, c in enumerate(cut):
                if c: runs.append([p[i + 1]])
                else: runs[-1].append(p[i + 1])
            out.append(" ".join(r[0] if len(r) == 1 else "(" + " ".join(r) + ")" for r in runs))
    # plus forms with a unit axis and a doubly nested group
    out += ["a 1 (b c)", "(a (b c))", "((a b) c)", "c () b a"]
    return out


SZ = dict(a=2, b=3, c=2)


def shape_of(expr):
    import math
    dims = []
    for tok in re.findall(r"\((?:[^()]|\([^()]*\))*\)|\S+", expr):
        names = re.findall(r"[abc]", tok)
        dims.append(math.prod(SZ[n] for n in names) if not tok.isdigit() else int(tok))
    return tuple(dims)


def work_id(unit):
    import einx
    mode, exprs, firsts = unit
    hist = collections.Counter(); bad = []
    data = {e: (np.arange(12, dtype="int64") * 5 + 1).reshape(shape_of(e)) for e in exprs}
    for e1 in firsts:
        x = data[e1]
        for e2 in exprs:
            y = outcome(lambda: einx.id(f"{e1} -> {e2}", x, **SZ))
            if y[0] != "value":
                hist["not-a-rearrangement"] += 1; continue
            back = outcome(lambda: einx.id(f"{e2} -> {e1}", y[1], **SZ))
            hist["relations"] += 1; hist["inversion"] += 1
            if back[0] != "value" or not np.array_equal(back[1], x):
                bad.append(({"kind": "equivariance", "relation": "inversion", "desc": f"{e1} -> {e2}"}, f"id({e2!r} -> {e1!r})(id({e1!r} -> {e2!r})(x)) != x", {"id": [e1, e2]}))
            if mode == "triples":
                for e3 in exprs:
                    z1 = outcome(lambda: einx.id(f"{e2} -> {e3}", y[1], **SZ))
                    z2 = outcome(lambda: einx.id(f"{e1} -> {e3}", x, **SZ))
                    hist["relations"] += 1; hist["composition"] += 1
                    if z1[0] != z2[0] or (z1[0] == "value" and not np.array_equal(z1[1], z2[1])):
                        if len(bad) < 20:
                            bad.append(({"kind": "equivariance", "relation": "composition", "desc": f"{e1} -> {e2} -> {e3}"},
                                        f"id({e2!r} -> {e3!r}) after id({e1!r} -> {e2!r}) differs from id({e1!r} -> {e3!r})", {"id": [e1, e2, e3]}))
    # concatenation: split then concatenate gives the identity and vice versa
    x = (np.arange(10, dtype="int64") + 1).reshape(5, 2)
    for split, cat in [("(a + b) c -> a c, b c", "a c, b c -> (a + b) c"), ("c (a + b) -> c a, c b", "c a, c b -> c (a + b)"), ("(a + b) c -> c a, b c", "c a, b c -> (a + b) c")]:
        if firsts[0] != exprs[0]: break
        xx = x if split.startswith("(") else x.T
        parts = outcome(lambda: einx.id(split, xx, a=2))
        hist["relations"] += 1; hist["inversion"] += 1
        if parts[0] != "value":
            bad.append(({"kind": "equivariance", "relation": "inversion", "desc": split}, f"id({split!r}) failed: {parts[1]}", {"concat": split})); continue
        back = outcome(lambda: einx.id(cat, *parts[1]))
        if back[0] != "value" or not np.array_equal(back[1], xx):
            bad.append(({"kind": "equivariance", "relation": "inversion", "desc": split}, f"id({cat!r}) does not invert id({split!r})", {"concat": split}))
    # two concatenations in one expression: split then re-assemble is the identity; swapping the two concatenated dimensions transposes the result
    if firsts[0] == exprs[0]:
        for a_, b_, c_, d_ in ((2, 3, 2, 3), (2, 2, 2, 2), (1, 2, 3, 1)):
            X = (np.arange((a_ + b_) * (c_ + d_), dtype="int64") * 3 + 1).reshape(a_ + b_, c_ + d_)
            parts = outcome(lambda: einx.id("(a + b) (c + d) -> a c, a d, b c, b d", X, a=a_, c=c_))
            hist["relations"] += 1; hist["inversion"] += 1
            if parts[0] != "value":
                bad.append(({"kind": "equivariance", "relation": "inversion", "desc": "block split"}, f"block split failed: {parts[1]}", {"concat": "blocks"})); continue
            back = outcome(lambda: einx.id("a c, a d, b c, b d -> (a + b) (c + d)", *parts[1]))
            if back[0] != "value" or not np.array_equal(back[1], X):
                bad.append(({"kind": "equivariance", "relation": "inversion", "desc": "block assemble"}, f"assembling the four blocks of a split matrix (sizes {a_},{b_},{c_},{d_}) does not give the matrix back", {"concat": "blocks"}))
            # (inputs are paired with the blocks of the output in row-major order: (c,a), (c,b), (d,a), (d,b))
            sw = outcome(lambda: einx.id("a c, b c, a d, b d -> (c + d) (a + b)", parts[1][0], parts[1][2], parts[1][1], parts[1][3]))
            hist["relations"] += 1; hist["output-permutation"] += 1
            if sw[0] != "value" or not np.array_equal(sw[1], X.T):
                bad.append(({"kind": "equivariance", "relation": "output-permutation", "desc": "block assemble transposed"}, f"'-> (c + d) (a + b)' is not the transpose of '-> (a + b) (c + d)' (sizes {a_},{b_},{c_},{d_})", {"concat": "blocks"}))
            two = outcome(lambda: einx.id("a x, b x -> (a + b) x", *[einx.id("a c, a d -> a (c + d)", parts[1][0], parts[1][1]), einx.id("b c, b d -> b (c + d)", parts[1][2], parts[1][3])]))
            hist["relations"] += 1; hist["composition"] += 1
            if two[0] != "value" or not np.array_equal(two[1], X):
                bad.append(({"kind": "equivariance", "relation": "composition", "desc": "block assemble in two steps"}, "concatenating in two steps differs from the single rearrangement", {"concat": "blocks"}))
    return dict(hist), bad


def _t(x):
    if isinstance(x, list): return tuple(_t(i) for i in x)
    return x


def gen_unit(u):
    ops, Rk, k = u
    from vf.props.c17 import desc_json
    return [json.loads(json.dumps(desc_json(d))) for d in gen.corpus_descs(ops, Rk, k)]


QUICK = [(["id"], 3, 1), (["id"], 4, 0), (["sum", "max"], 3, 0), (["sum"], 2, 1), (["add", "subtract"], 2, 0), (["add"], 1, 1), (["dot"], 3, 0), (["get_at"], 2, 0), (["add_at", "set_at"], 2, 0), (["flip", "argmax", "sort", "softmax"], 3, 0),
         (["flip", "argmax"], 2, 1)]
THOROUGH = [(["id"], 3, 1), (["id"], 4, 0), (["sum", "max", "mean"], 3, 1), (["add", "subtract"], 2, 1), (["add"], 3, 0), (["where"], 1, 1), (["dot"], 3, 0), (["dot"], 2, 1),
            (["get_at"], 3, 0), (["get_at"], 1, 1), (["add_at", "set_at"], 2, 0), (["add_at"], 1, 1), (["flip", "argmax", "sort", "softmax", "roll", "argsort"], 3, 1)]


def run(ctx):
    plan = QUICK if ctx.tier == "quick" else THOROUGH
    units = [([op], Rk, k) for ops, Rk, k in plan for op in ops]
    items = []; seen = set()
    for lst in runner.pmap(gen_unit, units, chunksize=1):
        for dj in lst:
            key = json.dumps(dj, sort_keys=True)
            if key not in seen: seen.add(key); items.append(dj)
    hist = collections.Counter()
    chunks = [(ctx.seed, c) for c in runner.chunks(items, 20)]
    import random
    random.Random(ctx.seed).shuffle(chunks)
    for h, bad in runner.pmap(work, chunks, chunksize=1):
        hist.update(h)
        for sig, what, rp in bad: ctx.violation(sig, what, rp)
    exprs = id_expressions()
    mode = "triples"
    for h, bad in runner.pmap(work_id, [(mode, exprs, [e]) for e in exprs], chunksize=1):
        hist.update(h)
        for sig, what, rp in bad: ctx.violation(sig, what, rp)
    ctx.counters.update(hist)
    ctx.sample({"relation": "input-permutation", "call": "einx.sum('a [b] c -> c a', x)", "related": "einx.sum('c a [b] -> c a', transpose(x, (2, 0, 1)))"})
    ctx.sample({"relation": "composition", "exprs": exprs[:3], "checked": "id(e2->e3)(id(e1->e2)(x)) == id(e1->e3)(x) for all triples"})
    ctx.sample({"relation": "renaming", "maps": RENAMINGS[0]})
    ctx.coverage = {
        "evaluations": hist.get("relations", 0) + hist.get("base-values", 0), "distinct_nontrivial": hist.get("relations", 0),
        "rule": f"calls = corpus {plan} x size sets (distinct, all-2); relations per call: 3 renamings, every admissible permutation of each flat input's items (bracketed items keep "
                f"their relative order), every admissible output permutation, every grouping of two adjacent un-bracketed input items; id: {len(exprs)} expressions over a=2,b=3,c=2 -> "
                f"{len(exprs) ** 2} ordered pairs (inversion) and {len(exprs) ** 3} triples (composition), 3 split/concat pairs. distinct_nontrivial = related call pairs/triples evaluated",
        "exhaustive": True, "descriptions": len(items), "per_relation": {k: hist.get(k, 0) for k in ("renaming", "input-permutation", "output-permutation", "regrouping", "inversion", "composition")},
    }
    ctx.assumptions = ["integer contents, bytes-equal comparison", "set_at is given duplicate-free semantics only through the relations that do not reorder updates (update_at excluded from permutation relations on the target)"]


def replay(d):
    if "id" in d or "concat" in d:
        exprs = id_expressions()
        h, bad = work_id(("triples", exprs, [d["id"][0]] if "id" in d else [exprs[0]]))
        hits = [b for b in bad if b[2] == {k: v for k, v in d.items()}]
        for b in (hits or bad)[:5]: print(b[1])
        return bool(hits or ("concat" in d and bad))
    h, bad = work((0, [d["desc"]]))
    hits = [b for b in bad if b[2]["relation"] == d["relation"]]
    for b in hits[:5]: print(b[1])
    return bool(hits)
