"""C01 - every built-in operation computes exactly its loop-notation meaning.

Explorer: E-IN.  The whole bounded corpus of calls (vf/gen.py: all skeletons up to rank R, all <= k decorations, two size sets)
is pushed through the real public entry points on all three numpy backends and compared element by element with the independent
loop evaluator (vf/refsem.py).
"""
import collections, json
import numpy as np
from vf import runner, gen, calls, refsem as R

LEVEL = "exploration"

ELEM_REST = ["multiply", "true_divide", "floor_divide", "divide", "logical_and", "logical_or", "maximum", "minimum", "less", "less_equal", "greater",
             "greater_equal", "equal", "not_equal", "logaddexp"]
RED_REST = ["var", "std", "prod", "count_nonzero", "any", "all", "min", "logsumexp"]
QUICK = [  # (ops, R, k)
    (["id"], 3, 1), (["id"], 4, 0), (["id"], 2, 2),
    (["sum", "max"], 3, 1), (["mean"], 2, 1), (RED_REST, 2, 1),
    (["add"], 3, 0), (["add"], 2, 1), (["subtract"], 2, 0), (["where"], 2, 0), (["where"], 1, 1), (ELEM_REST, 2, 0),
    (["dot"], 3, 0), (["dot"], 2, 1),
    (["get_at"], 3, 0), (["get_at"], 2, 1),
    (["set_at"], 2, 0), (["add_at"], 3, 0), (["add_at"], 1, 1), (["subtract_at"], 2, 0),
    (["flip", "argmax"], 3, 1), (["roll", "sort", "softmax", "argsort", "log_softmax", "argmin"], 2, 1),
]
THOROUGH = [
    (["id"], 3, 1), (["id"], 4, 1), (["id"], 2, 2),
    (["sum", "max", "mean"], 3, 1), (["sum"], 2, 2), (RED_REST, 3, 1),
    (["add", "subtract"], 3, 0), (["add", "subtract"], 2, 1), (["where"], 2, 0), (["where"], 1, 1), (ELEM_REST, 2, 0), (ELEM_REST, 1, 1),
    (["dot"], 3, 0), (["dot"], 2, 1),
    (["get_at"], 3, 0), (["get_at"], 2, 1),
    (["add_at", "set_at"], 3, 0), (["add_at", "set_at", "subtract_at"], 2, 1),
    (["flip", "roll", "sort", "softmax", "argmax"], 3, 1), (["argsort", "log_softmax", "argmin"], 3, 1),
]


def plan(tier):
    return QUICK if tier == "quick" else THOROUGH


def gen_unit(unit):
    ops, Rk, k, sizesets = unit
    return [c.to_json() | {"env": None} for c in gen.corpus(ops, Rk, k, sizesets)]


def classify(call, seed):
    """returns list of (backend, verdict, detail) for one call"""
    import einx
    try:
        args = calls.build_args(call, seed)
    except (R.NoSolution, R.Ambiguous, R.ParseError, NotImplementedError, KeyError, IndexError) as e:
        return [("*", "skip-args:" + type(e).__name__, "")]
    try:
        with runner.time_limit(30):
            ref = ("value", calls.run_ref(call, [a.copy() for a in args]))
    except (R.NoSolution, R.Ambiguous, R.ParseError) as e:
        ref = ("illformed", type(e).__name__)
    except NotImplementedError as e:
        ref = ("undefined", str(e)[:40])
    except runner.Timeout:
        ref = ("undefined", "timeout")
    out = []
    for be in calls.BACKENDS:
        try:
            with runner.time_limit(30):
                got = ("value", calls.run_einx(call, [a.copy() for a in args], backend=be))
        except einx.errors.OperationNotSupportedError:
            got = ("notsupported",)
        except einx.errors.EinxError as e:
            got = ("einxerror", type(e).__name__)
        except runner.Timeout:
            got = ("timeout",)
        except Exception as e:  # noqa
            got = ("otherexc", type(e).__name__)
        if got[0] == "value" and ref[0] == "value":
            ok = calls.same_value(call, got[1], ref[1])
            out.append((be, "agree" if ok else "DISAGREE", "" if ok else _describe(got[1], ref[1])))
        else:
            out.append((be, got[0] + "/" + ref[0], (got[1] if len(got) > 1 and got[0] != "value" else "")))
    return out


def _describe(got, exp):
    if isinstance(exp, tuple) and len(exp) == 2 and isinstance(exp[1], dict):
        exp = exp[0]
    try:
        return f"einx shape {np.asarray(got).shape} values {np.asarray(got).ravel()[:12].tolist()} ; loop semantics shape {np.asarray(exp).shape} values {np.asarray(exp).ravel()[:12].tolist()}"
    except Exception:
        return "structure differs"


def work(chunk):
    seed, items = chunk
    hist = collections.Counter()
    bad = []
    nontrivial = 0
    for j in items:
        call = gen.Call.from_json(j)
        res = classify(call, seed)
        agreed = False
        for be, verdict, detail in res:
            hist[(gen.OP_FAMILY[call.op], be, verdict)] += 1
            if verdict == "DISAGREE":
                bad.append((j, be, detail))
            agreed |= verdict == "agree"
        if agreed and (call.decos or True):
            nontrivial += 1
    return dict(hist), bad, nontrivial, len(items)


def collect(ctx, units, seed):
    allcalls = []
    seen = set()
    for lst in runner.pmap(gen_unit, units, chunksize=1):
        for j in lst:
            key = (j["op"], j["desc"], json.dumps(j["shapes"]), json.dumps(j["sizes"], sort_keys=True))
            if key not in seen:
                seen.add(key); allcalls.append(j)
    allcalls.sort(key=lambda j: (j["op"], len(j["desc"]), j["desc"], json.dumps(j["shapes"])))
    return allcalls


def units_for(tier, sizesets=("distinct", "all2")):
    units = []
    for ops, Rk, k in plan(tier):
        for op in ops:
            units.append(([op], Rk, k, sizesets))
    return units


def run(ctx):
    from vf import refsem_selftest
    fails = refsem_selftest.run()
    if fails:
        raise RuntimeError(f"RefSem self-test against the documentation examples failed: {fails}")
    sizesets = ("distinct", "all2") if ctx.tier == "quick" else ("distinct", "all2", "unit0", "unit1")
    allcalls = collect(ctx, units_for(ctx.tier, sizesets), ctx.seed)
    hist = collections.Counter()
    nontrivial = 0
    chunks = [(ctx.seed, c) for c in runner.chunks(allcalls, 40)]
    import random
    random.Random(ctx.seed).shuffle(chunks)
    for h, bad, nt, n in runner.pmap(work, chunks, chunksize=1):
        hist.update(h); nontrivial += nt
        for j, be, detail in bad:
            sig = {"kind": "value", "op": j["op"], "desc": j["desc"], "shapes": str(j["shapes"]), "backend": be}
            ctx.violation(sig, f"einx.{j['op']}({j['desc']!r}, shapes={j['shapes']}, sizes={j['sizes']}, backend={be!r}) differs from its loop-notation meaning: {detail}",
                          {"call": j, "backend": be, "seed": ctx.seed})
    fam = collections.defaultdict(collections.Counter)
    for (f, be, v), n in hist.items():
        fam[f][f"{be}:{v}"] += n
    for f in fam:
        ctx.counters.update({f"{f}|{k}": v for k, v in fam[f].items()})
    for j in allcalls[:: max(1, len(allcalls) // 10)][:10]:
        ctx.sample({"call": f"einx.{j['op']}({j['desc']!r})", "shapes": j["shapes"], "sizes": j["sizes"], "decorations": j["decos"]})
    agree = sum(n for (f, be, v), n in hist.items() if v == "agree")
    ctx.coverage = {
        "evaluations": sum(hist.values()),
        "distinct_nontrivial": nontrivial,
        "rule": "calls = all skeletons (rank<=R, every bracket placement the family allows, every output permutation) x all <=k decorations "
                "(group, bracket join, ellipsis named/anonymous/0-2 repetitions, unit axis, broadcast axis, number, concatenation) x size sets "
                f"{list(sizesets)}, per family plan {plan(ctx.tier)}; each on numpy, numpy.numpylike, numpy.einsum. distinct_nontrivial = distinct calls "
                "(op, description, shapes, sizes) for which einx returned a value on some backend AND RefSem gave the call a meaning and the values were compared",
        "exhaustive": True, "distinct_calls": len(allcalls), "compared_agree": agree,
        "distinct_verdict_classes": len({v for (_, _, v) in hist}),
    }
    ctx.assumptions = ["tensor contents are chosen (injective for data movement, small exact integers for arithmetic), not enumerated",
                       "RefSem is the specification: written from the documentation, self-tested against its examples before every run",
                       "calls RefSem cannot give a meaning (nested ellipsis, concatenation inside a group, ...) are counted but not judged"]


def replay(d):
    import einx
    call = gen.Call.from_json(d["call"])
    args = calls.build_args(call, d.get("seed", 0))
    ref = calls.run_ref(call, [a.copy() for a in args])
    got = calls.run_einx(call, [a.copy() for a in args], backend=d["backend"])
    print(call, "backend", d["backend"])
    print("einx      :", np.asarray(got).shape, np.asarray(got).ravel()[:24].tolist())
    r = ref[0] if isinstance(ref, tuple) and len(ref) == 2 and isinstance(ref[1], dict) else ref
    print("loop nest :", np.asarray(r).shape, np.asarray(r).ravel()[:24].tolist())
    return not calls.same_value(call, got, ref)
