"""C16 - results are reproducible across processes, hash seeds and repeated calls.

Explorer: E-CHOICE + whole-process runs.
 (A) the corpus is executed in separate interpreter processes under different PYTHONHASHSEED values (each draws its own uuid names); the
     per-call outcome digests must be identical in every process;
 (B) inside one process with the compile cache disabled (EINX_CACHE_SIZE=0, so that every request re-parses, re-solves and re-compiles with
     fresh uuid names): two graph=True requests return identical text, repeated executions identical values;
 (C) exhaustive exploration of the orders in which einx consumes unordered collections (guarded hook FFERFLO_EINX_VERIF: choice points in
     cse / _join_exprs / the equation solver): every permutation (<= 4 elements) or identity, reversal, rotations and transpositions, one
     deviation at a time (quick) / two (thorough); a differing outcome is a candidate that is only reported after a real hash seed pair
     reproduces it, so no alarm can be raised on an order that no seed produces.
"""
import sys, os, json, itertools, collections, subprocess, hashlib
import numpy as np
from vf import runner, gen, calls

LEVEL = "model_checking"
PLAN_QUICK = [(["id"], 3, 1), (["sum", "logsumexp"], 2, 1), (["add"], 2, 0), (["dot"], 2, 1), (["get_at"], 2, 0), (["set_at", "add_at"], 2, 0), (["set_at"], 1, 1), (["flip", "argmax", "sort", "softmax"], 2, 1)]
PLAN_THOROUGH = [(["id"], 3, 1), (["id"], 2, 2), (["sum", "logsumexp", "mean"], 3, 1), (["add"], 2, 1), (["where"], 1, 1), (["dot"], 3, 0), (["dot"], 2, 1), (["get_at"], 2, 1), (["set_at", "add_at", "subtract_at"], 2, 0),
                 (["set_at"], 3, 0), (["set_at"], 1, 1), (["flip", "argmax", "sort", "softmax", "roll"], 3, 1)]
EXTRA = [  # descriptions chosen for their solver / CSE load and for duplicate-sensitive updates
    ("id", "b (s ds)... c -> b s... ds... c", [(2, 4, 6, 3)], {"ds": (2, 2)}),
    ("id", "(a b) (c d) -> (a c) (b d)", [(6, 6)], {"a": 2, "c": 3}),
    ("id", "(a + b) c -> a c, b c", [(5, 2)], {"a": 2}),
    ("sum", "b (s [ds])... c", [(2, 4, 6, 3)], {"ds": (2, 2)}),
    ("set_at", "b [a], b p, p -> b [a]", [(2, 4), (2, 3), (3,)], {}),
    ("set_at", "[a], i j, j i -> [a]", [(4,), (2, 3), (3, 2)], {}),
    ("set_at", "b [a], b i j, j -> b [a]", [(2, 3), (2, 2, 3), (3,)], {}),
    ("add_at", "b [a], b p, p -> b [a]", [(2, 4), (2, 3), (3,)], {}),
    ("get_at", "b [h w] c, b i [2] -> b i c", [(2, 3, 4, 2), (2, 5, 2)], {}),
    # short forms: the implicit output is chosen among candidates (must not depend on the iteration order of a set)
    ("add", "a b, b a", [(2, 3), (3, 2)], {}), ("multiply", "a b, b a", [(2, 3), (3, 2)], {}), ("add", "a 1, 1 a", [(2, 1), (1, 2)], {}), ("add", "a b, a b", [(2, 3), (2, 3)], {}),
    ("add", "a b, b", [(2, 3), (3,)], {}), ("add", "b, a b", [(3,), (2, 3)], {}), ("where", "a b, b a, a b", [(2, 3), (3, 2), (2, 3)], {}), ("add", "a b c, c b a, b a c", [(2, 2, 2)] * 3, {}),
    ("sum", "a [b] c", [(2, 3, 2)], {}), ("flip", "a [b c]", [(2, 3, 2)], {}), ("argmax", "a [b c]", [(2, 3, 2)], {}), ("dot", "a b, b c -> a c", [(2, 3), (3, 2)], {}),
]


def digest_value(r):
    if isinstance(r, (tuple, list)):
        return [digest_value(x) for x in r]
    a = np.asarray(r)
    return [list(a.shape), str(a.dtype), hashlib.md5(np.ascontiguousarray(a).tobytes()).hexdigest()]


def corpus_items(tier):
    plan = PLAN_QUICK if tier == "quick" else PLAN_THOROUGH
    items = []; seen = set()
    for ops, Rk, k in plan:
        for c in gen.corpus(ops, Rk, k, ("distinct",)):
            if c.key not in seen:
                seen.add(c.key); items.append(c.to_json())
    for op, desc, shapes, sizes in EXTRA:
        items.append({"op": op, "desc": desc, "shapes": [list(s) for s in shapes], "sizes": {k: (list(v) if isinstance(v, tuple) else v) for k, v in sizes.items()}, "kw": {}, "decos": ["extra"], "sizeset": "extra"})
    return items


def outcome_digest(call, args, graph=False, backend=None):
    import einx
    try:
        r = calls.run_einx(call, [a.copy() for a in args], backend=backend, graph=graph)
    except BaseException as e:  # noqa
        if isinstance(e, KeyboardInterrupt): raise
        return ["raise", type(e).__name__]
    if graph:
        return ["code", hashlib.md5(r.encode()).hexdigest()]
    return ["value", digest_value(r)]


def child_main(mode):
    """runs inside a separate interpreter: PYTHONHASHSEED / EINX_CACHE_SIZE are set by the parent; the work list arrives on stdin"""
    runner.setup_env()
    import warnings; warnings.simplefilter("ignore")
    items = json.loads(sys.stdin.read())
    out = []
    for j in items:
        call = gen.Call.from_json(j)
        try:
            args = calls.build_args(call, 0)
        except Exception:
            out.append(None); continue
        if mode == "values":
            out.append([outcome_digest(call, args), outcome_digest(call, args, backend="numpy.numpylike")])
        else:  # "repeat": cache disabled, same request several times
            g1 = outcome_digest(call, args, graph=True); g2 = outcome_digest(call, args, graph=True)
            v1 = outcome_digest(call, args); v2 = outcome_digest(call, args); v3 = outcome_digest(call, args)
            out.append([g1, g2, v1, v2, v3])
    sys.stdout.write("RESULT " + json.dumps(out) + "\n")


def spawn(items, mode, hashseed, cache_env, nparts):
    """one interpreter per (seed, part)"""
    procs = []
    parts = [items[i::nparts] for i in range(nparts)]
    for pi, part in enumerate(parts):
        env = dict(os.environ); env["PYTHONHASHSEED"] = str(hashseed)
        if cache_env is None: env.pop("EINX_CACHE_SIZE", None)
        else: env["EINX_CACHE_SIZE"] = cache_env
        p = subprocess.Popen([sys.executable, "-W", "ignore", "-m", "vf.props.c16", "--child", mode], stdin=subprocess.PIPE, stdout=subprocess.PIPE, stderr=subprocess.DEVNULL, env=env, cwd=runner.ROOT)
        p.stdin.write(json.dumps(part).encode()); p.stdin.close()
        procs.append((pi, p))
    res = [None] * len(items)
    for pi, p in procs:
        so = p.stdout.read(); p.wait(timeout=1200)
        lines = [l for l in so.decode().splitlines() if l.startswith("RESULT ")]
        if not lines: raise RuntimeError(f"child for seed {hashseed} part {pi} produced no result")
        for k, r in enumerate(json.loads(lines[-1][7:])):
            res[pi + k * nparts] = r
    return res


def run(ctx):
    items = corpus_items(ctx.tier)
    seeds = [0, 1, 2, 3] if ctx.tier == "quick" else list(range(8))
    nparts = max(1, 16 // len(seeds))
    # (A) separate processes under different hash seeds -- all started together
    import concurrent.futures as cf
    with cf.ThreadPoolExecutor(len(seeds)) as ex:
        results = list(ex.map(lambda s: spawn(items, "values", s, None, nparts), seeds))
    ndiff = 0; outcomes = collections.Counter()
    for i, j in enumerate(items):
        per = [json.dumps(r[i]) for r in results]
        outcomes[len(set(per))] += 1
        if len(set(per)) > 1:
            ndiff += 1
            groups = collections.defaultdict(list)
            for s, p in zip(seeds, per): groups[p].append(s)
            gs = sorted(groups.values(), key=lambda g: g[0])
            ctx.violation({"kind": "hashseed", "op": j["op"], "desc": j["desc"], "shapes": str(j["shapes"])},
                          f"einx.{j['op']}({j['desc']!r}, shapes={j['shapes']}, {j['sizes']}) gives different outcomes under PYTHONHASHSEED {gs[0]} and {gs[1]}: "
                          f"{json.loads(list(groups)[0])[0][:2]} vs {json.loads(list(groups)[1])[0][:2]}", {"call": j, "seeds": [gs[0][0], gs[1][0]]})
    # (B) cache disabled: repeated requests inside one process
    rep = spawn(items, "repeat", 0, "0", 16)
    nrep = 0
    for j, r in zip(items, rep):
        if r is None: continue
        nrep += 1
        g1, g2, v1, v2, v3 = r
        if g1 != g2:
            ctx.violation({"kind": "repeat-text", "op": j["op"], "desc": j["desc"], "shapes": str(j["shapes"])}, f"einx.{j['op']}({j['desc']!r}, graph=True) returned two different texts for the same request in one process (EINX_CACHE_SIZE=0)",
                          {"call": j, "repeat": True})
        if not (v1 == v2 == v3):
            ctx.violation({"kind": "repeat-value", "op": j["op"], "desc": j["desc"], "shapes": str(j["shapes"])}, f"einx.{j['op']}({j['desc']!r}) returned different outcomes when repeated in one process (EINX_CACHE_SIZE=0): {v1[:1]} {v2[:1]} {v3[:1]}",
                          {"call": j, "repeat": True})
    # (C) choice-point exploration (needs the guarded hook in einx)
    from vf import choice
    cstats = choice.explore(ctx, items, deviations=1 if ctx.tier == "quick" else 2)
    ctx.counters.update({f"distinct outcomes over seeds = {k}": v for k, v in outcomes.items()})
    ctx.counters.update({"choice:" + k: v for k, v in cstats.items()})
    for j in items[:3] + items[-3:]:
        ctx.sample({"call": f"einx.{j['op']}({j['desc']!r})", "shapes": j["shapes"], "hash_seeds": seeds})
    ctx.coverage = {
        "states": cstats.get("orders_explored", 0) + len(items) * len(seeds), "transitions": cstats.get("choice_points", 0) + len(items) * len(seeds) * 2 + nrep * 5,
        "traces_validated_against_impl": len(items) * len(seeds) + nrep,
        "exhaustive": True, "calls": len(items), "hash_seeds": seeds, "repeat_checked": nrep, "calls_differing_across_seeds": ndiff,
        "rule": "states = (call, hash seed) process-level executions + explored (call, order choice) executions; traces_validated_against_impl = executions in separate real interpreter processes (per hash seed, and the cache-disabled repeats); every call of the corpus runs in one interpreter per hash seed (own uuid draws) on "
                "backends numpy and numpy.numpylike, digests compared; repeat: graph=True twice and 3 executions with EINX_CACHE_SIZE=0; choice exploration: see counters",
    }
    ctx.assumptions = ["tensor contents are fixed (seed 0) so that digests are comparable across processes", "a candidate from the choice exploration is reported only after a real PYTHONHASHSEED pair reproduces it"]


def replay(d):
    call = [d["call"]]
    if d.get("repeat"):
        r = spawn(call, "repeat", 0, "0", 1)[0]; print(r); return r[0] != r[1] or not (r[2] == r[3] == r[4])
    s1, s2 = d["seeds"]
    a = spawn(call, "values", s1, None, 1)[0]; b = spawn(call, "values", s2, None, 1)[0]
    print(f"PYTHONHASHSEED={s1}:", a[0][:2]); print(f"PYTHONHASHSEED={s2}:", b[0][:2])
    return a != b


if __name__ == "__main__":
    if len(sys.argv) >= 3 and sys.argv[1] == "--child":
        child_main(sys.argv[2])
