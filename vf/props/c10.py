"""C10 - concurrent use from several threads behaves like some serial order.

Explorer: E-SCHED (vf/sched.py).  For each small thread program, ALL schedules with at most k pre-emptions, pre-emption possible before
every source line of einx's registry / api / cache / tracing files and at every lock acquire; the real code runs under a cooperative
scheduler that owns every einx lock.  Oracle: brute-force linearizability - the observation of every explored concurrent execution must
be one of the observations obtained by running the same operations serially in some interleaving of whole operations.
"""
import sys, os, types, itertools, collections, json, time
import numpy as np
from vf import runner, sched

LEVEL = "model_checking"
_E = {}


def env():
    """process-wide harness state: einx, registry snapshot, traced files (built once per worker)"""
    if _E:
        return _E
    # every lock / event einx creates - also those created while it is imported (module-level locks, locks captured in closures of its
    # decorators) - must be owned by the scheduler: the factories of the threading module are cooperative while einx is being imported
    import threading as _t
    if "einx" in sys.modules:
        raise RuntimeError("harness error: einx was imported before the scheduler could take over its locks")
    real = (_t.Lock, _t.RLock, _t.Event)
    _t.Lock = sched.CoopLock; _t.RLock = sched.CoopLock; _t.Event = sched.CoopEvent
    try:
        import einx
    finally:
        _t.Lock, _t.RLock, _t.Event = real
    from einx._src.frontend import backend as B
    reg = B.registry
    root = os.path.dirname(einx.__file__)
    files = tuple(os.path.join(root, p) for p in ["_src/frontend/backend.py", "_src/frontend/api.py", "_src/util/lru_cache.py", "_src/tracer/graph.py", "_src/util/rwlock.py",
                                                   "_src/adapter/torch/devicestack.py", "_src/adapter/arrayapi/namespacestack.py"])
    x = np.arange(6).reshape(2, 3)

    class FakeTensor:
        pass

    def fake_factory():
        return B.Backend(ops={}, name="fake", priority=0, optimizations=[], compiler=None, is_supported_tensor=lambda t: isinstance(t, FakeTensor), get_shape=lambda t: ())
    sys.modules.pop("vfake", None)
    reg.register_on_import("vfake", "fake", fake_factory)
    # instantiate the numpy backends and warm the compile caches used by the warm programs
    be = {"E": reg.get("numpy.einsum"), "L": reg.get("numpy.numpylike"), "N": reg.get("numpy")}
    for b in (None, "numpy.einsum", "numpy.numpylike", "numpy"):
        einx.id("a b -> b a", x, graph=True, backend=b)
    reg.get(None, [x])
    customs = {n: B.Backend(ops=be["N"].ops, name=n, priority=-7, optimizations=be["N"].optimizations, compiler=be["N"].compiler,
                            is_supported_tensor=be["N"].is_supported_tensor, get_shape=be["N"].get_shape) for n in ("c1", "c2")}
    # any lock reachable from einx's module globals / the registry must be owned by the scheduler
    import threading
    locks = []
    for name, mod in list(sys.modules.items()):
        if name == "einx" or name.startswith("einx."):
            for k, v in list(vars(mod).items()):
                if isinstance(v, (type(threading.Lock()), type(threading.RLock()))):
                    locks.append((name, k))
    sched.install_threading_shim()
    _E.update(orig_lock=reg.use_lock, einx=einx, B=B, reg=reg, files=files, x=x, be=be, customs=customs, FakeTensor=FakeTensor, snap=reg.state, module_locks=locks,
              caches=find_caches(einx))
    return _E


def find_caches(einx):
    out = []
    for name in sorted(vars(einx)):
        f = getattr(einx, name)
        for c in getattr(f, "__closure__", None) or ():
            try:
                w = c.cell_contents
            except ValueError:
                continue
            cc = getattr(getattr(w, "__wrapped__", None), "cache_clear", None)
            if cc is not None:
                out.append(cc)
    return out


def reset(cold):
    E = env()
    B, reg = E["B"], E["reg"]
    st = B.BackendRegistryState(E["snap"])
    st.uninitialized_backends = {k: list(v) for k, v in E["snap"].uninitialized_backends.items()}
    sys.modules.pop("vfake", None)
    # own the "which modules are new" nondeterminism: everything imported so far (by the harness, the pool, lazily by numpy...) counts as seen
    st.seen_module_names.update(sys.modules)
    reg.state = st
    if cold:
        for cc in E["caches"]:
            cc()
        E["dirty"] = True
    elif E.get("dirty"):
        # a cold program emptied the compile caches: warm programs must start from the same warm caches every time
        for cc in E["caches"]:
            cc()
        for b in (None, "numpy.einsum", "numpy.numpylike", "numpy"):
            E["einx"].id("a b -> b a", E["x"], graph=True, backend=b)
        st = B.BackendRegistryState(E["snap"])
        st.uninitialized_backends = {k: list(v) for k, v in E["snap"].uninitialized_backends.items()}
        st.seen_module_names.update(sys.modules)
        reg.state = st
        E["dirty"] = False


def tag(code):
    return "einsum" if "einsum" in code else ("transpose" if "transpose" in code else "other")


def make_op(spec):
    E = env(); einx, reg, x = E["einx"], E["reg"], E["x"]
    k = spec[0]
    if k == "enter": return lambda: (E["be"][spec[1]].__enter__(), "entered")[1]
    if k == "exit": return lambda: (E["be"][spec[1]].__exit__(None, None, None), "exited")[1]
    if k == "call": return lambda: tag(einx.id("a b -> b a", x, graph=True))
    if k == "call_cold": return lambda: tag(einx.id(spec[1], x, graph=True))
    if k == "run_cold": return lambda: np.asarray(einx.id(spec[1], x)).tolist()
    if k == "get_by_name": return lambda: reg.get_by_name(spec[1]).name
    if k == "get_tensors": return lambda: reg.get(None, [x]).name
    if k == "register": return lambda: (reg.register(E["customs"][spec[1]]), "registered")[1]
    if k == "call_named": return lambda: reg.get(spec[1]).name
    if k == "lazy_lookup":
        def f():
            sys.modules["vfake"] = types.ModuleType("vfake")
            return reg.get(None, [E["FakeTensor"]()]).name
        return f
    raise KeyError(spec)


WITH_E = [("enter", "E"), ("call",), ("exit", "E")]
PROGRAMS = {
    "with|call": ([WITH_E, [("call",)]], False),
    "with|get_by_name": ([WITH_E, [("get_by_name", "numpy.einsum")]], False),
    "with|get_tensors": ([WITH_E, [("get_tensors",)]], False),
    "with|register+use": ([WITH_E, [("register", "c1"), ("call_named", "c1")]], False),
    "with|lazy_lookup": ([WITH_E, [("lazy_lookup",)]], False),
    "with|with_same": ([WITH_E, WITH_E], False),
    "enterexit|enterexit": ([[("enter", "E"), ("exit", "E")], [("enter", "L"), ("exit", "L")]], False),
    "register|register": ([[("register", "c1"), ("call_named", "c1")], [("register", "c2"), ("call_named", "c2")]], False),
    "lazy|lazy": ([[("lazy_lookup",)], [("lazy_lookup",)]], False),
    "register|lazy": ([[("register", "c1")], [("lazy_lookup",)]], False),
    "cold|cold_same": ([[("call_cold", "a b -> (b a)")], [("call_cold", "a b -> (b a)")]], True),
    "cold|cold_diff": ([[("call_cold", "a b -> (b a)")], [("run_cold", "a b -> b a 1")]], True),
    "coldfail|coldfail_same": ([[("call_cold", "a b c -> c b a")], [("call_cold", "a b c -> c b a")]], True),      # first-time compilation that fails (RankError), twice
    "coldfail|cold_same_op": ([[("call_cold", "a b c -> c b a")], [("call_cold", "a b -> (b a)")]], True),
    "3: with|call|get": ([[("enter", "E"), ("exit", "E")], [("call",)], [("get_by_name", "numpy.numpylike")]], False),
    "3: reg|reg|with": ([[("register", "c1")], [("register", "c2")], [("enter", "L"), ("exit", "L")]], False),
}
QUICK_BOUNDS = {"with|call": 1, "with|get_tensors": 2, "with|register+use": 2, "enterexit|enterexit": 2, "register|register": 2, "with|with_same": 1,
                "cold|cold_same": 1, "cold|cold_diff": 1, "coldfail|coldfail_same": 1, "coldfail|cold_same_op": 1}
THOROUGH_BOUNDS = {k: 2 for k in PROGRAMS} | {"cold|cold_same": 1, "cold|cold_diff": 1, "coldfail|coldfail_same": 2, "coldfail|cold_same_op": 1, "enterexit|enterexit": 3, "register|register": 3}


def final_state():
    E = env(); st = E["reg"].state
    return (tuple(b.name for b in st.use_stack), tuple(sorted(st.name_to_backend)), tuple(sorted(b.name for b in st.backends)),
            tuple(sorted(k for k in st.uninitialized_backends)))


def serial_spec(name):
    threads, cold = PROGRAMS[name]
    E = env()
    E["reg"].use_lock = sched.cooperative(E["orig_lock"], None)
    allowed = set()
    idx = [i for i, t in enumerate(threads) for _ in t]
    for order in set(itertools.permutations(idx)):
        reset(cold)
        pos = [0] * len(threads); res = [[] for _ in threads]
        for t in order:
            op = make_op(threads[t][pos[t]]); pos[t] += 1
            try:
                res[t].append(("ok", op()))
            except BaseException as e:  # noqa
                res[t].append(("exc", type(e).__name__))
                # a failed operation ends that thread's program (as it would in the thread)
        allowed.add(json.dumps([norm_results(res), final_state()]))
    reset(cold)
    return allowed


def norm_results(res):
    out = []
    for r in res:
        seq = []
        for x in r:
            seq.append(list(x[:2]))
            if x[0] != "ok":
                break
        out.append(seq)
    return out


def run_once(name, choices, expect):
    threads, cold = PROGRAMS[name]
    E = env()
    reset(cold)

    def body(ops):
        def f():
            out = []
            for spec in ops:
                op = make_op(spec)
                try:
                    out.append(("ok", op()))
                except sched.Deadlock:
                    raise
                except BaseException as e:  # noqa
                    out.append(("exc", type(e).__name__)); break
            return out
        return f
    s = sched.Sched([body(t) for t in threads], choices, E["files"], expect)
    E["reg"].use_lock = sched.cooperative(E["orig_lock"], s)
    sched.CURRENT = s
    try:
        results = s.run()
    finally:
        sched.CURRENT = None
    if s.error is not None:
        raise s.error
    res = []
    for r in results:
        if r[0] == "ok": res.append(r[1])
        elif r[0] == "deadlock": res.append([("exc", "DEADLOCK")])
        else: res.append([("exc", r[1])])
    obs = json.dumps([norm_results(res), final_state()]) if not s.deadlock else json.dumps(["DEADLOCK", norm_results(res)])
    return s.trace, obs


def work(unit):
    """explore the subtree below one root prefix; returns counts, outcome histogram and violating schedules"""
    name, bound, choices, expect, allowed = unit
    allowed = set(allowed)
    n = 0; hist = collections.Counter(); bad = []; maxpts = 0; pts = 0
    for ch, trace, obs in sched.explore(lambda c, e: run_once(name, c, e), bound, root=(choices, expect)):
        n += 1; hist[obs] += 1; maxpts = max(maxpts, len(trace)); pts += len(trace)
        if obs not in allowed and len(bad) < 5:
            # confirm by replaying the same schedule twice: identical observation required before anything is reported
            t2, o2 = run_once(name, [t[1] for t in trace], [t[0] for t in trace])
            t3, o3 = run_once(name, [t[1] for t in trace], [t[0] for t in trace])
            if o2 == obs and o3 == obs:
                bad.append(([t[1] for t in trace], obs, sched.preemptions(trace)))
            else:
                raise RuntimeError(f"harness error: schedule not reproducible ({obs} / {o2} / {o3})")
    reset(PROGRAMS[name][1])
    return name, n, dict(hist), bad, maxpts, pts


def run(ctx):
    E = env()
    if E["module_locks"]:
        ctx.count("module_level_locks_found", len(E["module_locks"]))
    bounds = QUICK_BOUNDS if ctx.tier == "quick" else THOROUGH_BOUNDS
    units = []; specs = {}; roots = {}
    for name in PROGRAMS:
        bound = bounds.get(name, 1)
        allowed = serial_spec(name)
        specs[name] = allowed
        trace, obs = run_once(name, [], [])
        roots[name] = (len(trace), obs)
        units.append((name, bound, [], [], sorted(allowed), True))       # the root execution itself (no children: handled below)
        for ch, ex in sched.children(trace, 0, bound):
            units.append((name, bound, ch, ex, sorted(allowed), False))
    reset(False)
    E["reg"].use_lock = sched.cooperative(E["orig_lock"], None)
    work_units = []
    per_prog = collections.Counter(); outcomes = collections.defaultdict(collections.Counter); maxpts = collections.Counter()
    for u in units:
        if u[5]:
            # root: count it, check it, but do not expand again in a worker
            name = u[0]; per_prog[name] += 1; outcomes[name][roots[name][1]] += 1; maxpts[name] = max(maxpts[name], roots[name][0])
            if roots[name][1] not in specs[name]:
                ctx.violation({"kind": "schedule", "program": name, "preemptions": "0", "obs": roots[name][1][:200]},
                              f"program {name}: the default schedule gives {roots[name][1]} which no serial order produces", {"program": name, "choices": []})
        else:
            work_units.append(u[:5])
    import random
    random.Random(ctx.seed).shuffle(work_units)
    total_pts = sum(roots[n][0] for n in PROGRAMS)
    for name, n, hist, bad, mp, pts in runner.pmap(work, work_units, chunksize=1):
        per_prog[name] += n; outcomes[name].update(hist); maxpts[name] = max(maxpts[name], mp); total_pts += pts
        for choices, obs, pre in bad:
            nz = [i for i, c in enumerate(choices) if c]
            ctx.violation({"kind": "schedule", "program": name, "preemptions": str(pre), "obs": obs[:300]},
                          f"program {name}: schedule with {pre} pre-emption(s) at points {nz} gives {obs[:400]} which no serial order of the same operations produces "
                          f"(serial outcomes: {sorted(specs[name])[:3]})", {"program": name, "choices": choices})
    total = sum(per_prog.values())
    for name in PROGRAMS:
        ctx.counters[f"{name}: executions"] = per_prog[name]
        ctx.counters[f"{name}: distinct outcomes"] = len(outcomes[name])
        ctx.counters[f"{name}: serial outcomes"] = len(specs[name])
        ctx.counters[f"{name}: scheduling points"] = maxpts[name]
        ctx.counters[f"{name}: preemption bound"] = bounds.get(name, 1)
        ctx.sample({"program": name, "threads": PROGRAMS[name][0], "preemption_bound": bounds.get(name, 1), "executions": per_prog[name]})
    ctx.coverage = {
        "states": sum(len(v) for v in outcomes.values()), "transitions": total_pts, "traces_validated_against_impl": total,
        "exhaustive": True, "programs": len(PROGRAMS), "executions": total,
        "rule": "for every thread program all schedules with <= k pre-emptions (k per program in counters), scheduling points = every source line of einx's "
                "backend.py/api.py/lru_cache.py/tracer/graph.py plus lock acquires; states = distinct observations (per-thread results + final registry state), "
                "transitions = scheduling points executed (measured); each execution runs the real code and is compared with the set "
                "of serial outcomes",
    }
    ctx.assumptions = ["CPython with the GIL; pre-emption granularity = source line in the traced files (code in other files runs atomically)",
                       "every lock reachable from einx is replaced by a cooperative lock; a blocked OS thread is reported as harness error (exit 2), never as violation",
                       "with-blocks are process-global by design: the specification is the set of serial interleavings of whole operations, so a thread seeing another "
                       "thread's active with-block is allowed"]


def replay(d):
    name = d["program"]
    allowed = serial_spec(name)
    trace, obs = run_once(name, d["choices"], None)
    trace2, obs2 = run_once(name, d["choices"], None)
    env()["reg"].use_lock = sched.cooperative(env()["orig_lock"], None)
    reset(False)
    print("program", name, PROGRAMS[name][0]); print("observation:", obs); print("replayed again:", obs2 == obs); print("serial outcomes:", sorted(allowed))
    return obs not in allowed
