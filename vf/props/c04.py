"""C04 - generated source is a faithful, self-contained compilation of the traced graph.

Explorer: E-IN over programs (translation validation).  (1) every (graph, function, text) captured from the corpus calls; (2) ALL
well-typed IR programs of up to K instructions over a menu of node kinds, built with the tracer's own constructors, each instruction
taking its operands from ANY earlier value (values used 0, 1, many times; shared sub-graphs; closures; in-place updates).
Oracle: exec of the text in an empty namespace (+ the constants its header lists) == the function returned with it == the reference
interpreter, on results, final contents of mutable cells and the multiset of logged elementary calls; static check of the text.
"""
import ast, builtins, itertools, collections, json, re
import numpy as np
from vf import runner, gen, calls, interp
from vf.props.c05 import same, describe

LEVEL = "translation_validation"


def static_check(code):
    """the text must parse and reference no name it does not define, import or receive (constants from the header are received)"""
    try:
        tree = ast.parse(code)
    except SyntaxError as e:
        return f"text does not parse: {e}"
    defined = set(re.findall(r"^# Constant (const\d+):", code, re.M)) | set(dir(builtins))
    problems = []

    def visit(node, scope):
        if isinstance(node, ast.FunctionDef):
            scope.add(node.name)
            inner = set(scope)
            for a in node.args.args + node.args.kwonlyargs + node.args.posonlyargs: inner.add(a.arg)
            for st in node.body: visit(st, inner)
            return
        if isinstance(node, ast.Import):
            for a in node.names: scope.add((a.asname or a.name).split(".")[0])
            return
        if isinstance(node, ast.ImportFrom):
            for a in node.names: scope.add(a.asname or a.name)
            return
        if isinstance(node, ast.Assign):
            visit(node.value, scope)
            for t in node.targets:
                for n in ast.walk(t):
                    if isinstance(n, ast.Name) and isinstance(n.ctx, ast.Store): scope.add(n.id)
                    elif isinstance(n, ast.Name) and n.id not in scope: problems.append(n.id)
            return
        if isinstance(node, ast.Name):
            if isinstance(node.ctx, ast.Load) and node.id not in scope: problems.append(node.id)
            return
        for ch in ast.iter_child_nodes(node): visit(ch, scope)
    scope = set(defined)
    for st in tree.body: visit(st, scope)
    return f"text uses undefined name(s) {sorted(set(problems))}" if problems else None


# ------------------------------------------------------------------------------------------------ (1) captured corpus
COMPARISONS = [0]


def check_record(rec, args):
    """-> (message or None, skipped?)"""
    COMPARISONS[0] += 4 + 2 * sum(1 for a in args if isinstance(a, np.ndarray))     # static, bytecode, fn~text, fn~interp, side effects per tensor argument
    code, fn, after = rec.get("code"), rec.get("fn"), rec["after"]
    if code is None or fn is None:
        return None, True
    msg = static_check(code)
    if msg: return msg, False
    try:
        op = interp.exec_text(code, after)
    except Exception as e:  # noqa
        return f"executing the returned text in an empty namespace (+ listed constants) failed: {type(e).__name__}: {str(e)[:150]}", False
    if not callable(op): return "text does not define a callable 'op'", False
    # the text returned is the code that is executed: same bytecode
    if getattr(fn, "__code__", None) is not None and getattr(op, "__code__", None) is not None:
        if fn.__code__.co_code != op.__code__.co_code or fn.__code__.co_names != op.__code__.co_names:
            return "the function executed for the call is not the function the returned text defines (bytecode differs)", False
    outs = []
    for runner_ in (lambda a: fn(*a), lambda a: op(*a), lambda a: interp.run_graph(after, a)[0]):
        a = [np.array(x, copy=True, order="K") if isinstance(x, np.ndarray) else x for x in args]
        try:
            outs.append(("ok", runner_(a), a))
        except Exception as e:  # noqa
            outs.append(("exc", type(e).__name__, a))
    kinds = [o[0] for o in outs]
    if kinds != ["ok"] * 3:
        if len({(o[0], o[1] if o[0] == "exc" else None) for o in outs}) > 1:
            return f"function / text / node-by-node evaluation disagree on failure: {[o[:2] if o[0] == 'exc' else 'ok' for o in outs]}", False
        return None, True
    (_, r_fn, a_fn), (_, r_tx, a_tx), (_, r_in, a_in) = outs
    if not same(r_fn, r_tx): return f"text re-executed gives {describe(r_tx)} but the compiled function gives {describe(r_fn)}", False
    if not same(r_fn, r_in): return f"compiled function gives {describe(r_fn)} but evaluating the graph node by node gives {describe(r_in)}", False
    for i, (x, y, z) in enumerate(zip(a_fn, a_tx, a_in)):
        if isinstance(x, np.ndarray) and not (same(x, y) and same(x, z)):
            return f"side effect on argument {i} differs between function / text / graph evaluation", False
    return None, False


def work_corpus(chunk):
    import einx
    seed, items = chunk
    hist = collections.Counter(); bad = []
    for j in items:
        call = gen.Call.from_json(j)
        try:
            args = calls.build_args(call, seed)
        except Exception:
            hist["skip-args"] += 1; continue
        for be in calls.BACKENDS:
            with interp.Capture() as cap:
                try:
                    text = calls.run_einx(call, [a.copy() for a in args], backend=be, graph=True)
                except Exception:
                    hist["not-compiled"] += 1; continue
            if not cap.records:
                hist["cached"] += 1; continue
            rec = cap.records[-1]
            hist["programs"] += 1
            msg, skipped = check_record(rec, args)
            if msg is None and not skipped and text != rec.get("code"):
                msg = "graph=True returned a text different from the one produced by the compiler for this call"
            if msg is None and not skipped and any(a.ndim >= 2 for a in args):
                msg, _ = check_record(rec, [np.asfortranarray(a) if a.ndim >= 2 else a for a in args])
                if msg: msg = "[Fortran-ordered inputs] " + msg
            if skipped: hist["skip-run"] += 1
            elif msg is None: hist["agree"] += 1
            else:
                hist["DISAGREE"] += 1
                if len(bad) < 5:
                    bad.append(({"kind": "corpus", "op": call.op, "desc": call.desc, "shapes": str(j["shapes"]), "backend": be},
                                f"einx.{call.op}({call.desc!r}, shapes={j['shapes']}, backend={be}): {msg}", {"call": j, "backend": be, "seed": seed}))
    hist["comparisons"] = COMPARISONS[0]; COMPARISONS[0] = 0
    return dict(hist), bad


# ------------------------------------------------------------------------------------------------ (2) all small IR programs
LOG = []
def f1(x): LOG.append(("f1", x)); return ("f1", x)
def f2(x, y): LOG.append(("f2", x, y)); return ("f2", x, y)
def mk(x): LOG.append(("mk", x)); return [x]
def push(c, v): LOG.append(("push", tuple(c), v)); c.append(v)
def rd(c): LOG.append(("rd", tuple(c))); return ("rd", tuple(c))
def app(g, x): LOG.append(("app",)); return g(x)
def app2(g, x): LOG.append(("app2",)); return (g(x), g(("again", x)))
def pair(x): LOG.append(("pair", x)); return (("l", x), ("r", x))
def mkdict(x): LOG.append(("mkdict", x)); return {"k": x}


class Obj:
    def __init__(self, v): self.attr = ("attr", v)
def mkobj(x): LOG.append(("mkobj", x)); return Obj(x)


KINDS_FULL = ["f1", "f2", "tuple", "list", "dict", "getitem0", "assert", "cast", "len", "cell", "push", "rd", "nested", "nested2", "split", "getattr", "setitem", "import", "eq", "lit_int", "lit_float", "lit_bool", "lit_str"]
KINDS_REDUCED = ["f1", "f2", "tuple", "getitem0", "cell", "push", "rd", "nested", "cast"]


def build(prog, nin=2, out_mode=0):
    """prog: list of (kind, i, j): operands are indices of earlier values; returns Graph or None if ill-typed.
    value types: val (opaque term), tup (tuple of 2), cell (mutable list), obj, dct"""
    import einx._src.tracer as tracer
    from einx._src.tracer.signature import python as P
    C = {k: P.constant(v) for k, v in dict(f1=f1, f2=f2, mk=mk, push=push, rd=rd, app=app, app2=app2, pair=pair, mkobj=mkobj, mkdict=mkdict).items()}
    ins = [P.Value(None) for _ in range(nin)]
    vals = [(v, "val") for v in ins]
    for kind, i, j in prog:
        if i >= len(vals) or j >= len(vals): return None
        (a, ta), (b, tb) = vals[i], vals[j]
        r = None
        plain = lambda t: t in ("val", "tup")
        if kind == "f1": r = (C["f1"](a), "val") if plain(ta) else None
        elif kind == "f2": r = (C["f2"](a, b), "val") if plain(ta) and plain(tb) else None
        elif kind == "tuple": r = (P.call(P.builtins.tuple, [[a, b]]), "tup") if plain(ta) and plain(tb) else None
        elif kind == "list": r = (C["f1"]([a, b]), "val") if plain(ta) and plain(tb) and False else ((C["f2"]((a, b), {"k": a}), "val") if plain(ta) and plain(tb) else None)
        elif kind == "dict": r = (C["mkdict"](a), "dct") if ta == "val" else None
        elif kind == "getitem0":
            if ta == "tup": r = (a[0], "val")
            elif ta == "dct": r = (a["k"], "val")
        elif kind == "assert": r = (P.assert_(a, P.not_equal(b, 12345)), ta) if tb == "val" else None
        elif kind == "cast": r = (tracer.cast(a, lambda origin: P.Value(origin)), ta)
        elif kind == "len": r = (P.call(P.builtins.len, [a]), "val") if ta == "tup" else None
        elif kind == "cell": r = (C["mk"](a), "cell") if ta == "val" else None
        elif kind == "push": r = (P.call_inplace(a, C["push"], [a, b]), "cell") if ta == "cell" and tb == "val" else None
        elif kind == "rd": r = (C["rd"](a), "val") if ta == "cell" else None
        elif kind == "nested":
            if ta in ("val", "tup") and tb in ("val", "tup"):
                p = P.Value(None)
                g = tracer.Graph([p], C["f2"](p, a))       # closure over the outer value a
                r = (C["app"](g, b), "val")
        elif kind == "nested2":
            if ta in ("val", "tup") and tb in ("val", "tup"):
                p = P.Value(None)
                inner = C["f1"](C["f2"](p, a))
                g = tracer.Graph([p], C["f2"](inner, inner))   # value used twice inside the closure; closure called twice
                r = (C["app2"](g, b), "tup")
        elif kind == "split":
            if ta == "val":
                t = C["pair"](a)
                l, rr = tracer.cast(t, lambda origin: (P.Value(origin), P.Value(origin)))
                r = (C["f2"](rr, l), "val")
        elif kind == "getattr": r = (P.getattr(C["mkobj"](a), "attr"), "val") if ta == "val" else None
        elif kind == "setitem": r = (P.setitem(a, 0, b), "cell") if ta == "cell" and tb == "val" else None
        elif kind == "import": r = (P.call(P.getattr(P.import_("operator"), "add"), [P.call(P.builtins.len, [[a]]), 41]), "val") if ta == "val" else None
        elif kind == "eq": r = (P.equal(a, b), "val") if ta == "val" and tb == "val" else None
        # literals that are == but of different type must stay distinguishable in the text (1 / 1.0 / True / "1")
        elif kind == "lit_int": r = (C["f2"](a, 1), "val") if plain(ta) else None
        elif kind == "lit_float": r = (C["f2"](a, 1.0), "val") if plain(ta) else None
        elif kind == "lit_bool": r = (C["f2"](a, True), "val") if plain(ta) else None
        elif kind == "lit_str": r = (C["f2"](a, "1"), "val") if plain(ta) else None
        if r is None: return None
        vals.append(r)
    if out_mode == 0: out = vals[-1][0]
    elif out_mode == 1: out = tuple(v for v, t in vals[nin:])                 # every computed value is an output
    else: out = [vals[-1][0], {"first": vals[nin][0]}]
    return tracer.Graph(ins, out, name="op")


def reads_ok(prog, nin=2):
    """exclude programs whose meaning is order dependent in the IR itself: a handle of a cell that has been superseded by an in-place update is used again"""
    superseded = set()
    for n, (kind, i, j) in enumerate(prog):
        if kind in ("push", "rd", "setitem", "cast", "assert") and i in superseded: return False
        if kind in ("push", "setitem"): superseded.add(i)
    return True


def norm(v):
    if isinstance(v, Obj): return ("Obj", norm(v.attr))
    if isinstance(v, (list, tuple)): return (type(v).__name__,) + tuple(norm(x) for x in v)
    if isinstance(v, dict): return ("dict",) + tuple(sorted((k, norm(x)) for k, x in v.items()))
    return v


def run_prog(prog, out_mode):
    import einx._src.tracer as tracer
    g = build(prog, out_mode=out_mode)
    if g is None: return "illtyped", None
    try:
        fn, code = tracer.compiler.python.compile(g, return_code=True)
    except Exception as e:  # noqa
        return "DISAGREE", f"compile failed: {type(e).__name__}: {str(e)[:300]}"
    msg = static_check(code)
    if msg: return "DISAGREE", msg + "\n" + code
    results = []
    for mode in ("fn", "text", "interp"):
        LOG.clear()
        try:
            if mode == "fn": r = fn("X", "Y")
            elif mode == "text": r = interp.exec_text(code, g)("X", "Y")
            else: r = interp.run_graph(g, ["X", "Y"])[0]
            results.append((repr(norm(r)), sorted(map(repr, LOG))))
        except Exception as e:  # noqa
            results.append((f"raise {type(e).__name__}: {str(e)[:80]}", None))
    if results[0] != results[1]: return "DISAGREE", f"text re-executed {results[1][0][:200]} != compiled function {results[0][0][:200]}\n{code}"
    if results[0] != results[2]:
        what = "result" if results[0][0] != results[2][0] else "multiset of elementary calls"
        return "DISAGREE", f"{what}: compiled {results[0][0][:300]} calls {results[0][1]} ; node-by-node {results[2][0][:300]} calls {results[2][1]}\n{code}"
    return "agree", None


def work_programs(unit):
    kinds_list, K, first_kinds = unit
    hist = collections.Counter(); bad = []
    for first in first_kinds:
        for rest in itertools.product(kinds_list, repeat=K - 1):
            kinds = (first,) + rest
            ranges = [range(2 + s) for s in range(K)]
            for ops in itertools.product(*[itertools.product(r, r) for r in ranges]):
                prog = [(k, i, j) for k, (i, j) in zip(kinds, ops)]
                if not reads_ok(prog): continue
                for out_mode in (0, 1, 2):
                    hist["enumerated"] += 1
                    verdict, detail = run_prog(prog, out_mode)
                    if verdict != "illtyped": hist["comparisons"] += 5      # static check, result and call multiset: function~text, function~interpreter
                    hist[verdict] += 1
                    if verdict == "DISAGREE" and len(bad) < 5:
                        bad.append(({"kind": "program", "prog": json.dumps(prog), "out_mode": str(out_mode)}, f"IR program {prog} (output mode {out_mode}): {detail}", {"prog": prog, "out_mode": out_mode}))
                    if verdict == "illtyped": break
    return dict(hist), bad


CORPUS_QUICK = [(["id"], 3, 1), (["sum", "max"], 3, 1), (["add"], 2, 1), (["dot"], 3, 0), (["get_at"], 2, 1), (["add_at"], 2, 1), (["set_at"], 2, 0), (["flip", "argmax", "softmax"], 2, 1),
                (["roll", "sort", "logsumexp"], 2, 1), (["where"], 1, 1)]
CORPUS_THOROUGH = [(["id"], 3, 2), (["id"], 4, 1), (["sum", "max", "mean"], 3, 2), (["add", "subtract", "where"], 2, 1), (["dot"], 3, 1), (["get_at"], 3, 1), (["add_at", "set_at", "subtract_at"], 2, 1),
                   (["flip", "argmax", "softmax", "roll", "sort"], 3, 1), (["logsumexp", "var", "argsort", "log_softmax"], 2, 1)]


def gen_unit(u):
    ops, Rk, k = u
    return [c.to_json() for c in gen.corpus(ops, Rk, k, ("distinct",))]


def adapter_and_factory_records(seed):
    """a few graphs the corpus does not reach: tensor factories, user functions wrapped by adapters (constants in the header)"""
    import einx
    x = np.arange(6).reshape(2, 3)
    out = []
    def red(t, axis=None, *, scale=1): return np.sum(t, axis=axis) * scale
    def elw(a, b): return a * 2 + b
    cases = [
        ("factory", lambda: einx.add("a b, b", x, lambda shape: np.ones(shape), graph=True), [x, lambda shape: np.ones(shape)]),
        ("factory-name", lambda: einx.add("a b, b", x, (lambda shape, name=None: np.ones(shape)), graph=True), [x, (lambda shape, name=None: np.ones(shape))]),
        ("adapt-reduce", lambda: einx.numpy.adapt_numpylike_reduce(red)("a [b]", x, scale=2, graph=True), [x]),
        ("adapt-elementwise", lambda: einx.numpy.adapt_numpylike_elementwise(elw)("a b, b -> b a", x, np.ones(3), graph=True), [x, np.ones(3)]),
        ("scalar", lambda: einx.add("a b, ", x, 1.5, graph=True), [x, 1.5]),
    ]
    bad = []; n = 0; kept = []
    for name, f, args in cases:
        with interp.Capture() as cap:
            try:
                f()
            except Exception:
                continue
        if not cap.records: continue
        n += 1
        kept.append((name, cap.records[-1], args))
        msg, skipped = check_record(cap.records[-1], args)
        if msg: bad.append(({"kind": "special", "case": name}, f"{name}: {msg}", {"special": name}))
    # every compiled function once more AFTER all the others have been compiled: a function must keep computing its own graph
    for name, rec, args in kept:
        n += 1
        msg, skipped = check_record(rec, args)
        if msg: bad.append(({"kind": "special", "case": name + " (after later compilations)"}, f"{name}, re-checked after other graphs with constants were compiled: {msg}", {"special": name}))
    return n, bad


def run(ctx):
    plan = CORPUS_QUICK if ctx.tier == "quick" else CORPUS_THOROUGH
    units = [([op], Rk, k) for ops, Rk, k in plan for op in ops]
    items = []; seen = set()
    for lst in runner.pmap(gen_unit, units, chunksize=1):
        for j in lst:
            key = (j["op"], j["desc"], json.dumps(j["shapes"]))
            if key not in seen: seen.add(key); items.append(j)
    items.sort(key=lambda j: (j["op"], len(j["desc"]), j["desc"]))
    hist = collections.Counter()
    for h, bad in runner.pmap(work_corpus, [(ctx.seed, c) for c in runner.chunks(items, 40)], chunksize=1):
        hist.update({"corpus:" + k: v for k, v in h.items()})
        for sig, what, rp in bad: ctx.violation(sig, what, rp)
    nsp, bad = adapter_and_factory_records(ctx.seed)
    hist["special:programs"] = nsp
    for sig, what, rp in bad: ctx.violation(sig, what, rp)
    plans = [(KINDS_FULL, 1), (KINDS_FULL, 2), (KINDS_REDUCED, 3)] if ctx.tier == "quick" else [(KINDS_FULL, 1), (KINDS_FULL, 2), (KINDS_FULL, 3), (KINDS_REDUCED[:6], 4)]
    punits = [(kl, K, [f]) for kl, K in plans for f in kl]
    for h, bad in runner.pmap(work_programs, punits, chunksize=1):
        hist.update({"ir:" + k: v for k, v in h.items()})
        for sig, what, rp in bad: ctx.violation(sig, what, rp)
    ctx.counters.update(hist)
    ctx.sample({"ir_program": [("cell", 0, 0), ("push", 2, 1), ("rd", 3, 0)], "meaning": "c = mk(X); push(c, Y) in place; rd(c)"})
    ctx.sample({"ir_program": [("f1", 0, 0), ("nested", 2, 1), ("f2", 2, 3)], "meaning": "closure over an outer value that is also used afterwards"})
    for j in items[:: max(1, len(items) // 4)][:4]:
        ctx.sample({"captured_compilation_of": f"einx.{j['op']}({j['desc']!r})", "shapes": j["shapes"]})
    programs = hist.get("corpus:programs", 0) + hist.get("ir:agree", 0) + hist.get("ir:DISAGREE", 0) + nsp
    ctx.coverage = {
        "programs": programs, "disagreements_checked": hist.get("corpus:comparisons", 0) + hist.get("ir:comparisons", 0), "exhaustive": True,
        "captured_compilations": hist.get("corpus:programs", 0), "ir_programs_enumerated": hist.get("ir:enumerated", 0), "ir_programs_well_typed": hist.get("ir:agree", 0) + hist.get("ir:DISAGREE", 0),
        "rule": f"disagreements_checked = individual comparisons made between text / compiled function / reference interpreter. (1) every compilation captured from the corpus calls on three backends (+ Fortran-ordered inputs, + factory/adapter/scalar cases); (2) all IR programs with plans "
                f"{[(len(k), K) for k, K in plans]} (menu size, instructions): each instruction takes operands from any earlier value, 3 output modes (last value / all values / "
                "list+dict); programs re-using a superseded cell handle are excluded. For each: static check of the text, exec in an empty namespace + listed constants, "
                "compiled function vs text vs reference interpreter on result, cells and multiset of logged elementary calls",
    }
    ctx.assumptions = ["symbolic inputs 'X','Y' and logging constant functions make any overwritten variable or duplicated/missing call visible",
                       "nested function definitions arise from the synthetic programs only (no vmap backend is importable)"]


def replay(d):
    if "prog" in d:
        v, det = run_prog([tuple(p) for p in d["prog"]], d["out_mode"]); print(v, det); return v == "DISAGREE"
    if "special" in d:
        n, bad = adapter_and_factory_records(0); hits = [b for b in bad if b[2]["special"] == d["special"]]
        for b in hits: print(b[1])
        return bool(hits)
    h, bad = work_corpus((d.get("seed", 0), [d["call"]]))
    for b in bad: print(b[1])
    return any(b[0]["backend"] == d["backend"] for b in bad)
