"""C02 - axis and rank solving is sound, unambiguous and exact.

Explorer: E-IN.  All expression lists built from a finite atom menu (<= 2 atoms per expression, 1-2 expressions), every ground truth from
small lengths x ellipsis repetitions, every subset of the information (shape known / None, each keyword given or absent), every single
corruption of it -> solve_shapes / matches / solve_axes, compared with the brute-force solver of RefSem which returns exactly the set of
solutions.  A second alphabet probes exact arithmetic beyond 2**31 with None-shaped tensors.
"""
import itertools, collections, json, re
import numpy as np
from vf import runner, gen, refsem as R

LEVEL = "exploration"
LEAVES = ["a", "b", "c", "2", "1"]


QUICK_ATOMS = ["a", "b", "2", "1", "(a b)", "(a 2)", "(b 3)", "(a + b)", "(a + 1)", "(2 + 2)", "(a a)", "a...", "(a b)...", "[a]", "()", "(a (b c))", "...", "(a...)",
               "[a]..."]


def atoms(tier):
    if tier == "quick":
        return list(QUICK_ATOMS)
    at = set(LEAVES) | set(QUICK_ATOMS)
    for l1, l2 in itertools.product(["a", "b", "2", "1"], repeat=2):
        at.add(f"({l1} {l2})"); at.add(f"({l1} + {l2})")
    at |= {"b...", "[a b]", "(a + b + c)", "(a c)", "(b c)", "(a + c)", "(a b...)"}
    return sorted(at)


def exprs(tier):
    at = atoms(tier)
    out = set()
    for k in range(0, 3):
        for combo in itertools.product(at, repeat=k):
            s = " ".join(combo)
            if s.count("...") <= 2: out.add(s)
    return sorted(out)


def expr_lists(tier):
    ex = exprs(tier)
    for e in ex:
        yield (e,)
    single = (["a", "b", "2", "(a b)", "(a + b)", "a...", "[a]", "(a 2)", "a b", "b a"] if tier == "quick" else atoms(tier) + ["a b", "b a", "a b c", "a 2", "(a b) c"])
    for e1, e2 in itertools.product(single, repeat=2):
        yield (e1, e2)
    if tier == "thorough":
        small = ["a", "b", "(a b)", "(a + b)", "a...", "a b", "2", "[a]", "(a 2)"]
        for t in itertools.product(small, repeat=3):
            yield t


def shapes_of(ex, vals):
    return tuple(tuple(R.length(d, vals) for d in R.flat_items(t)) for t in ex)


def rep_of(vals):
    """solution in the form solve_axes reports: name -> int, or -> tuple indexed by repetition"""
    out = {}
    for k, v in vals.items():
        if k.startswith("_anon"): continue
        parts = k.split(".")
        if len(parts) == 1: out[k] = v
        else: out.setdefault(parts[0], {})[tuple(int(i) for i in parts[1:])] = v
    return out


def classify(desc, shapes, sizes):
    """-> (class, list of solutions (combo, ex, vals), determined-by-substitution?)"""
    try:
        ins, outs = R.parse(desc)
        if outs is not None: return ("illformed", [], False)
        R.check_brackets(ins)
        if len(ins) != len(shapes): return ("illformed", [], False)
    except R.ParseError:
        return ("illformed", [], False)
    try:
        sols = R.all_solutions(ins, shapes, sizes, free_witnesses=True)
    except R.NoSolution:
        return ("unsat", [], False)
    if not sols:
        return ("unsat", [], False)
    shp = {shapes_of(ex, vals) for _, ex, vals in sols}
    axes = {(combo, tuple(sorted(vals.items()))) for combo, ex, vals in sols}
    subst = False
    if len(axes) == 1:
        combo, ex, vals = sols[0]
        known = gen.subst_closure(ex, list(shapes), sizes)
        names = {n.name for n in R.walk(ex) if isinstance(n, R.Axis)}
        # the repetition counts must themselves follow from a known rank or a tuple-valued keyword
        ells, cls, key = R.ellipsis_classes(ins)
        pinned = True
        for e, k in zip(ells, key):
            by_kw = any(isinstance(sizes.get(n), tuple) for n in k)
            by_rank = any(sh is not None and any(x is e for x in R.walk(t)) and sum(1 for y in R.walk(t) if isinstance(y, R.Ell)) == 1 for t, sh in zip(ins, shapes))
            pinned &= by_kw or by_rank
        subst = pinned and names <= set(known) and all(known[n] == vals[n] for n in names)
    return ("determined" if len(shp) == 1 else "ambiguous", sols, subst)


OKCLS = ("RankError", "AxisSizeError", "SyntaxError", "SemanticError")


def run_case(c):
    import einx
    descs, shapes, sizes = c
    desc = ", ".join(descs)
    try:
        with runner.time_limit(20):
            cls, sols, subst = classify(desc, shapes, sizes)
    except runner.Timeout:
        return [("ref-timeout", None)]
    except NotImplementedError:
        return [("ref-undefined", None)]
    shp = {shapes_of(ex, vals) for _, ex, vals in sols}
    rshapes = next(iter(shp)) if len(shp) == 1 else None
    tens = [None if s is None else np.zeros(s, dtype="int8") for s in shapes]
    res = []

    def call(f):
        try:
            with runner.time_limit(30):
                return ("ok", f(desc, *tens, **sizes))
        except einx.errors.EinxError as e:
            return ("einx", type(e).__name__)
        except runner.Timeout:
            return ("timeout", "Timeout")
        except Exception as e:  # noqa
            return ("other", type(e).__name__)
    # ---- solve_shapes
    g = call(einx.solve_shapes)
    if g[0] == "ok":
        got = tuple(tuple(int(i) for i in s) for s in g[1])
        if not sols: res.append(("SHAPES-UNSOUND", f"solve_shapes answered {got} although no assignment satisfies the constraints"))
        elif rshapes is None: res.append(("SHAPES-AMBIGUOUS", f"solve_shapes answered {got} although the shapes differ between satisfying assignments, e.g. {sorted(shp)[:2]}"))
        elif got != rshapes: res.append(("SHAPES-WRONG", f"solve_shapes answered {got}, the unique solution is {rshapes}"))
        else: res.append(("shapes-agree", None))
    else:
        if cls == "determined" and subst: res.append(("SHAPES-INCOMPLETE", f"solve_shapes raised {g[1]} although all lengths follow by substitution: {rshapes}"))
        elif g[1] not in OKCLS: res.append(("SHAPES-WRONGCLASS:" + g[1], f"solve_shapes raised {g[1]} instead of RankError/AxisSizeError ({cls})"))
        else: res.append(("shapes-reject/" + cls, None))
    # ---- matches
    g = call(einx.matches)
    if g[0] == "ok":
        m = bool(g[1])
        if m and (not sols or rshapes is None): res.append(("MATCHES-UNSOUND", f"matches returned True ({cls})"))
        elif not m and cls == "determined" and subst: res.append(("MATCHES-INCOMPLETE", f"matches returned False although the unique solution {rshapes} follows by substitution"))
        else: res.append(("matches-" + str(m) + "/" + cls, None))
    else:
        res.append(("MATCHES-RAISES:" + g[1], f"matches raised {g[1]}"))
    # ---- solve_axes: every REPORTED axis (and the repetition count its array length implies) must have that value in every solution
    g = call(einx.solve_axes)
    if g[0] == "ok":
        got = {}
        for k, v in g[1].items():
            v = np.asarray(v)
            got[k] = int(v) if v.ndim == 0 else {idx: int(v[idx]) for idx in np.ndindex(v.shape)}
        if not sols: res.append(("AXES-UNSOUND", f"solve_axes answered {got} although no assignment satisfies the constraints"))
        else:
            reps = [rep_of(vals) for _, _, vals in sols]
            wrong = [k for k, v in got.items() if any(r.get(k, {} if isinstance(v, dict) else None) != v for r in reps)]
            if wrong:
                k = wrong[0]
                alts = sorted({repr(r.get(k)) for r in reps})[:3]
                res.append(("AXES-WRONG" if len(alts) == 1 else "AXES-AMBIGUOUS", f"solve_axes reported {k}={got[k]} but the satisfying assignments have {k} in {alts}"))
            else:
                res.append(("axes-agree" if got else "axes-empty", None))
    else:
        allaxes_unique = len({(c_, tuple(sorted(v.items()))) for c_, _, v in sols}) == 1
        if allaxes_unique and subst: res.append(("AXES-INCOMPLETE", f"solve_axes raised {g[1]} although all lengths follow by substitution: {rep_of(sols[0][2])}"))
        elif g[1] not in OKCLS: res.append(("AXES-WRONGCLASS:" + g[1], f"solve_axes raised {g[1]} instead of RankError/AxisSizeError ({cls})"))
        else: res.append(("axes-reject/" + cls, None))
    return res


def cases_for(descs):
    """ground truths x information subsets x single corruptions for one expression list"""
    desc = ", ".join(descs)
    try:
        ins, outs = R.parse(desc)
        R.check_brackets(ins); R.check_depths(ins)
    except Exception:
        # ill-formed lists are still offered once (must be rejected)
        yield (descs, [None] * len(descs), {})
        return
    names = sorted(R.names_under(ins))
    ells = [n for n in R.walk(ins) if isinstance(n, R.Ell)]
    under = set().union(*[R.names_under(x.inner) if x.inner is not None else set() for x in ells]) if ells else set()
    for gt in (dict(a=2, b=3, c=2), dict(a=1, b=2, c=3)):
        for rep in ((0, 1, 2) if ells else (0,)):
            counts = {id(x): rep for x in ells}
            ex = [R.expand(t, counts) for t in ins]
            vals = {}
            for n in R.walk(ex):
                if isinstance(n, R.Axis):
                    parts = n.name.split(".")
                    vals[n.name] = gt.get(parts[0], 2) + (int(parts[1]) if len(parts) > 1 else 0)
            try:
                shapes = shapes_of(ex, vals)
            except Exception:
                continue
            kwnames = [n for n in names]
            def kwval(n):
                if n in under: return tuple(vals[f"{n}.{i}"] for i in range(rep))
                return vals[n]
            for known in itertools.product((True, False), repeat=len(descs)):
                shp = [s if k else None for s, k in zip(shapes, known)]
                for r in range(len(kwnames) + 1):
                    for sub in itertools.combinations(kwnames, r):
                        sizes = {n: kwval(n) for n in sub}
                        yield (descs, shp, sizes)
                        # single corruptions
                        for ti, s in enumerate(shp):
                            if s:
                                s2 = list(s); s2[0] += 1
                                yield (descs, shp[:ti] + [tuple(s2)] + shp[ti + 1:], sizes)
                                s3 = list(s); s3[-1] *= 2
                                yield (descs, shp[:ti] + [tuple(s3)] + shp[ti + 1:], sizes)
                                yield (descs, shp[:ti] + [tuple(s) + (2,)] + shp[ti + 1:], sizes)
                                yield (descs, shp[:ti] + [tuple(s[:-1])] + shp[ti + 1:], sizes)
                        for n in sub:
                            v = sizes[n]
                            if isinstance(v, tuple):
                                if v: yield (descs, shp, {**sizes, n: (v[0] + 1,) + v[1:]})
                                yield (descs, shp, {**sizes, n: v + (2,)})
                            else:
                                yield (descs, shp, {**sizes, n: v + 1})


def work(lists):
    hist = collections.Counter(); bad = []; n = 0
    seen = set()
    for descs in lists:
        for c in cases_for(descs):
            key = (c[0], tuple(c[1]), tuple(sorted(c[2].items())))
            if key in seen: continue
            seen.add(key); n += 1
            for verdict, detail in run_case(c):
                hist[verdict] += 1
                if detail is not None and len(bad) < 300:
                    bad.append((verdict, detail, c))
    return dict(hist), bad, n


# ------------------------------------------------------------------------------------------------ exactness beyond 2**31
BIG = [2 ** 16, 2 ** 31 - 1, 2 ** 31, 2 ** 32 + 1]
BIGDESCS = ["a", "a b", "(a b)", "(a + b)", "(a b) c", "a (b + c)", "(a (b c))", "(a 2)", "(a + 1)", "a...", "(a...)", "(a + b) (a b)"]


def work_big(descs):
    import einx
    hist = collections.Counter(); bad = []
    for desc in descs:
        ins, _ = R.parse(desc)
        names = sorted(R.names_under(ins))
        ell = any(isinstance(n, R.Ell) for n in R.walk(ins))
        for combo in itertools.product(BIG + [3], repeat=len(names)):
            if all(v == 3 for v in combo): continue
            env = {n: ((v, 3) if ell else v) for n, v in zip(names, combo)}
            shapes, ex, vals = R.shapes_from_env(ins, env)
            if any(d >= 2 ** 62 for sh in shapes for d in sh) or np.prod([float(v) for v in combo]) >= 2 ** 62:
                continue     # no tensor of that size can exist (numpy shapes are int64)
            hist["cases"] += 1
            for fname in ("solve_shapes", "solve_axes", "matches"):
                try:
                    with runner.time_limit(30):
                        got = getattr(einx, fname)(desc, *([None] * len(ins)), **env)
                except Exception as e:  # noqa
                    hist[f"{fname}:raise:{type(e).__name__}"] += 1
                    bad.append((f"BIG-{fname}-RAISES:{type(e).__name__}", f"{fname}({desc!r}, None, {env}) raised {type(e).__name__}; exact shapes are {shapes}", (desc, env, fname)))
                    continue
                if fname == "solve_shapes":
                    g = tuple(tuple(int(i) for i in s) for s in got)
                    ok = g == tuple(shapes)
                elif fname == "matches":
                    ok = bool(got); g = got
                else:
                    g = {k: np.asarray(v).tolist() for k, v in got.items()}
                    ok = g == {k: (list(v) if isinstance(v, tuple) else v) for k, v in env.items()}
                hist[f"{fname}:{'exact' if ok else 'WRONG'}"] += 1
                if not ok:
                    bad.append((f"BIG-{fname}-WRONG", f"{fname}({desc!r}, None, {env}) = {g}; exact value {shapes if fname != 'solve_axes' else env}", (desc, env, fname)))
            # through an operation: the literal in the generated code of id(..., graph=True) on a tensor factory
            if not ell and "+" not in desc and "[" not in desc:
                try:
                    code = einx.id(f"{desc} -> ({' '.join(names)})", lambda shape: None, graph=True, backend="numpy", **env)
                    total = 1
                    for v in combo: total *= v
                    hist["id-graph:" + ("exact" if str(total) in code else "WRONG")] += 1
                    if str(total) not in code:
                        bad.append(("BIG-id-graph-WRONG", f"id({desc!r} -> flattened, graph=True, {env}) does not contain the exact length {total}", (desc, env, "id")))
                except Exception as e:  # noqa
                    hist[f"id-graph:raise:{type(e).__name__}"] += 1
    return dict(hist), bad, hist["cases"]


def work_long(_):
    """ellipses with 10-12 repetitions: the reported table must follow the tensor's dimensions in order (digits of the repetition index beyond 9)"""
    import einx
    hist = collections.Counter(); bad = []
    for rank in (10, 11, 12):
        shape = tuple([2, 1, 3, 1, 2, 1, 1, 3, 1, 2, 3, 1][:rank])
        for desc, sizes, exp_axes in [("a...", {}, {"a": list(shape)}), ("(p a)...", {"p": 1}, {"p": [1] * rank, "a": list(shape)}), ("a... b", {}, {"a": list(shape[:-1]), "b": shape[-1]}),
                                      ("b a...", {}, {"b": shape[0], "a": list(shape[1:])})]:
            hist["cases"] += 1
            try:
                got = einx.solve_axes(desc, np.zeros(shape, dtype="int8"), **sizes)
                g = {k: np.asarray(v).tolist() for k, v in got.items()}
                if g != exp_axes:
                    bad.append(("LONG-solve_axes-WRONG", f"solve_axes({desc!r}, shape {shape}) = {g}; the unique solution is {exp_axes}", (desc, {"rank": rank}, "solve_axes")))
                sh = tuple(tuple(int(i) for i in t) for t in einx.solve_shapes(desc, np.zeros(shape, dtype="int8"), **sizes))
                if sh != (shape,):
                    bad.append(("LONG-solve_shapes-WRONG", f"solve_shapes({desc!r}, shape {shape}) = {sh}", (desc, {"rank": rank}, "solve_shapes")))
            except Exception as e:  # noqa
                bad.append((f"LONG-RAISES:{type(e).__name__}", f"solving {desc!r} against shape {shape} raised {type(e).__name__}", (desc, {"rank": rank}, "solve_axes")))
    return dict(hist), bad, hist["cases"]


def run(ctx):
    lists = list(expr_lists(ctx.tier))
    lists = sorted(set(lists), key=lambda t: (len(t), sum(len(x) for x in t), t))
    chunks = list(runner.chunks(lists, 12))
    import random
    random.Random(ctx.seed).shuffle(chunks)
    hist = collections.Counter(); n = 0
    for h, bad, k in runner.pmap(work, chunks, chunksize=1):
        hist.update(h); n += k
        for verdict, detail, c in bad:
            desc = ", ".join(c[0])
            sig = {"kind": verdict.split(":")[0], "exc": verdict.split(":")[1] if ":" in verdict else "", "desc": desc, "shapes": str(c[1]), "sizes": str(sorted(c[2].items()))}
            ctx.violation(sig, f"{desc!r} shapes={c[1]} sizes={c[2]}: {detail}", {"descs": list(c[0]), "shapes": [None if s is None else list(s) for s in c[1]],
                                                                                   "sizes": {k: (list(v) if isinstance(v, tuple) else v) for k, v in c[2].items()}})
    bh = collections.Counter(); nb = 0
    for h, bad, k in list(runner.pmap(work_big, [[d] for d in BIGDESCS], chunksize=1)) + [work_long(None)]:
        bh.update(h); nb += k
        for verdict, detail, c in bad:
            sig = {"kind": verdict.split(":")[0], "exc": verdict.split(":")[1] if ":" in verdict else "", "desc": c[0], "sizes": str(sorted(c[1].items())), "entry": c[2]}
            ctx.violation(sig, detail, {"big": True, "desc": c[0], "env": {k: (list(v) if isinstance(v, tuple) else v) for k, v in c[1].items()}, "entry": c[2]})
    ctx.counters.update(hist); ctx.counters.update({"big:" + k: v for k, v in bh.items()})
    for t in lists[:: max(1, len(lists) // 8)][:8]:
        ctx.sample({"expression_list": ", ".join(t), "offered": "every ground truth x information subset x single corruption"})
    answered = hist.get("shapes-agree", 0) + hist.get("axes-agree", 0)
    ctx.coverage = {
        "evaluations": 3 * n + 3 * nb,
        "distinct_nontrivial": answered,
        "rule": "expression lists: all expressions of <= 2 atoms over the atom menu (names, numbers, flatten, concat, ellipsis, brackets, nested), all pairs of single atoms "
                "(thorough: triples over a small menu); for each: ground truths {a=2,b=3,c=2},{a=1,b=2,c=3} x ellipsis repetitions 0,1,2; every subset of known shapes "
                "and keyword sizes (scalar or per-repetition tuple); every single corruption (dimension +1, x2, rank +1/-1, keyword +1, tuple length +1). "
                "Each (list, shapes, sizes) through solve_shapes, matches, solve_axes. distinct_nontrivial = answers given by einx that were compared with the unique "
                "brute-force solution (shapes-agree + axes-agree)",
        "exhaustive": True, "expression_lists": len(lists), "cases": n, "big_cases": nb, "answered_and_compared": answered,
        "rejected_unsat": hist.get("shapes-reject/unsat", 0), "rejected_ambiguous": hist.get("shapes-reject/ambiguous", 0),
        "rejected_although_determined_not_by_substitution": hist.get("shapes-reject/determined", 0),
    }
    ctx.assumptions = ["RefSem's brute-force solver is exact for these inputs: every equation is expression = constant over positive integers, so every constrained axis is bounded by that constant",
                       "ellipsis repetitions are explored in 0..3", "a determined-but-not-by-substitution call may answer correctly or raise"]


def replay(d):
    import einx
    if d.get("big"):
        env = {k: (tuple(v) if isinstance(v, list) else v) for k, v in d["env"].items()}
        h, bad, _ = work_long(None) if "rank" in d["env"] else work_big([d["desc"]])
        hits = [b for b in bad if b[2][1] == env and b[2][2] == d["entry"]]
        for b in hits: print(b[1])
        return bool(hits)
    c = (tuple(d["descs"]), [None if s is None else tuple(s) for s in d["shapes"]], {k: (tuple(v) if isinstance(v, list) else v) for k, v in d["sizes"].items()})
    res = run_case(c)
    for v, det in res: print(v, det or "")
    return any(det is not None for _, det in res)
