"""C12 - the expression parser is total and stable under re-printing and extra spacing.

Explorer: E-IN, exhaustive enumeration of ALL token sequences up to length L over the notation alphabet
(plus foreign characters), every redundant-space insertion of every one of them, str()/re-parse round trip of every
accepted one, and every accepted one pushed through one public operation per family at every small rank tuple.
"""
import itertools, re, collections
from vf import runner

LEVEL = "exploration"
TOK = ["a", "b", "1", "(", ")", "[", "]", "...", "->", ",", "+", " "]
FOREIGN = ["|", "-", ">", ".", "..", "{", "}", "*", "=", "a.b", "1a", "é", "\t", "\n", "'", '"', "\\", "%EXPR%", "^", ":", "<-"]
INTERNAL = ("AssertionError", "NameError", "KeyError", "IndexError", "AttributeError", "RecursionError", "UnboundLocalError",
            "NotImplementedError")


def canon(e):
    from einx._src.namedtensor import stage1 as s1
    if isinstance(e, s1.Axis):
        if e.value is not None:
            return ("num", int(e.value))
        return ("ax", e.name)
    if isinstance(e, s1.FlattenedAxis):
        return ("flat", canon(e.inner))
    if isinstance(e, s1.Brackets):
        return ("br", canon(e.inner))
    if isinstance(e, s1.Ellipsis):
        return ("ell", canon(e.inner))
    kind = {s1.ConcatenatedAxis: "cat", s1.List: "list", s1.Args: "args", s1.Op: "op"}[type(e)]
    return (kind,) + tuple(canon(c) for c in e.children)


def check_message(s, msg):
    """the SyntaxError must quote the caller's own string, markers inside it: some occurrence of  Expression: "<s>"  must be
    followed by a marker line of 13 blanks and at most len(s) columns of blanks/carets (at least one caret for non-blank s)"""
    key = f'Expression: "{s}"\n'
    i = msg.find(key)
    if i < 0:
        return "no-quote"
    problem = None
    while i >= 0:
        rest = msg[i + len(key):]
        end = rest.find("\n")
        caret = rest if end < 0 else rest[:end]
        body = caret[13:]
        if not caret.startswith(" " * 13) and len(s) > 0:
            problem = "caret-misplaced"
        elif len(body) > len(s) or set(body) - {" ", "^"}:
            problem = "caret-outside"
        elif len(s.strip()) > 0 and "^" not in body:
            problem = "no-caret"
        else:
            return None
        i = msg.find(key, i + 1)
    return problem


def parse_outcome(s):
    import einx
    from einx._src.namedtensor.stage1 import parse_op
    try:
        with runner.time_limit(10):
            t = parse_op(s)
    except einx.errors.SyntaxError as e:
        return ("SyntaxError", check_message(s, str(e))), None
    except runner.Timeout:
        return ("Timeout", None), None
    except BaseException as e:  # noqa
        return (type(e).__name__, None), None
    return ("ok", canon(t)), t


def space_positions(s):
    """positions where inserting one blank is redundant by the statement: next to an existing blank, next to
    '->' ',' '+', just inside parentheses/brackets, and on the outer side of a parenthesis/bracket when that side is
    already delimited (string end, blank, ',', '+', '->' or another delimiter)"""
    pos = set()
    n = len(s)
    for i, ch in enumerate(s):
        if ch == " ":
            pos.add(i); pos.add(i + 1)
        elif ch in ",+":
            pos.add(i); pos.add(i + 1)
        elif s.startswith("->", i):
            pos.add(i); pos.add(i + 2)
        elif ch in "([":
            pos.add(i + 1)
            if i == 0 or s[i - 1] in " ,+([" or s[i - 2:i] == "->":
                pos.add(i)
        elif ch in ")]":
            pos.add(i)
            if i + 1 == n or s[i + 1] in " ,+)]" or s[i + 1:i + 3] == "->":
                pos.add(i + 1)
    return sorted(pos)


def work(unit):
    kind, prefix, L = unit
    out = {"n": 0, "hist": collections.Counter(), "viol": [], "accepted": [], "space_variants": 0, "roundtrips": 0, "msgs": 0}

    def viol(sig, what, rp):
        if len(out["viol"]) < 200:
            out["viol"].append((sig, what, rp))

    if kind == "tokens":
        seqs = (prefix + rest for k in range(0, L - len(prefix) + 1) for rest in itertools.product(TOK, repeat=k)) \
            if len(prefix) == 2 else [prefix]
    else:
        seqs = prefix  # explicit list of strings
    from einx._src.namedtensor.stage1 import parse_op
    for seq in seqs:
        s = seq if isinstance(seq, str) else "".join(seq)
        out["n"] += 1
        oc, tree = parse_outcome(s)
        out["hist"][oc[0] if oc[0] != "SyntaxError" else "SyntaxError"] += 1
        if oc[0] == "SyntaxError":
            out["msgs"] += 1
            if oc[1] is not None:
                viol({"kind": "message", "problem": oc[1], "input": s}, f"SyntaxError for {s!r} does not quote the caller's string with markers inside it: {oc[1]}",
                     {"mode": "parse", "s": s})
        elif oc[0] == "Timeout":
            viol({"kind": "timeout", "input": s}, f"parse_op({s!r}) did not terminate within 10 s", {"mode": "parse", "s": s})
        elif oc[0] != "ok":
            viol({"kind": "not-total", "exc": oc[0], "input": s}, f"parse_op({s!r}) raised {oc[0]} instead of einx.errors.SyntaxError", {"mode": "parse", "s": s})
        # redundant spaces
        cls = oc if oc[0] == "ok" else (oc[0],)
        for p in space_positions(s):
            s2 = s[:p] + " " + s[p:]
            out["space_variants"] += 1
            oc2, _ = parse_outcome(s2)
            cls2 = oc2 if oc2[0] == "ok" else (oc2[0],)
            if cls2 != cls:
                viol({"kind": "space", "input": s, "variant": s2, "a": cls[0], "b": cls2[0]},
                     f"redundant blank changes parsing: {s!r} -> {cls[0]}, {s2!r} -> {cls2[0]}", {"mode": "space", "s": s, "s2": s2})
        # round trip
        if oc[0] == "ok":
            out["roundtrips"] += 1
            text = str(tree)
            oc3, _ = parse_outcome(text)
            if oc3 != oc:
                viol({"kind": "roundtrip", "input": s, "printed": text, "b": oc3[0]},
                     f"str(parse_op({s!r})) = {text!r} re-parses to {oc3[0]} / a different structure", {"mode": "roundtrip", "s": s})
            if kind == "tokens":
                out["accepted"].append(s)
    out["hist"] = dict(out["hist"])
    return out


# ---------------------------------------------------------------- accepted strings through public operations
OPS = ["id", "sum", "add", "dot", "get_at", "add_at", "flip", "argmax"]


def n_inputs(s):
    from einx._src.namedtensor.stage1 import parse_op
    t = parse_op(s)
    return len(t.children[0].children)


def work_ops(strings):
    import numpy as np, einx
    out = {"calls": 0, "viol": [], "hist": collections.Counter()}
    for s in strings:
        try:
            n = n_inputs(s)
        except Exception:
            continue
        if n > 3:
            continue
        ranks = [0, 1, 2, 3] if n <= 1 else ([0, 1, 2] if n == 2 else [1, 2])
        for op in OPS:
            for rk in itertools.product(ranks, repeat=n):
                args = [np.zeros((2,) * r, dtype="int64") for r in rk]
                out["calls"] += 1
                try:
                    with runner.time_limit(20):
                        getattr(einx, op)(s, *args)
                    out["hist"]["returned"] += 1
                except einx.errors.SyntaxError as e:
                    m = str(e)
                    out["hist"]["SyntaxError"] += 1
                    quoted = re.findall(r'Expression: "(.*)"\n', m)
                    if any(q != s for q in quoted) or not quoted:
                        if len(out["viol"]) < 100:
                            out["viol"].append(({"kind": "foreign-text", "op": op, "input": s, "quoted": (quoted or ["<none>"])[0]},
                                                f"einx.{op}({s!r}, ranks={rk}) raised a SyntaxError about text the caller did not write: {(quoted or ['<none>'])[0]!r}",
                                                {"mode": "op", "op": op, "s": s, "ranks": list(rk)}))
                except runner.Timeout:
                    out["hist"]["Timeout"] += 1
                except BaseException as e:  # noqa
                    out["hist"][type(e).__name__] += 1
    out["hist"] = dict(out["hist"])
    return out


def work_grouped(unit):
    t, u, L2, RED = unit
    out = []
    for k in range(0, L2 - 1):
        for rest in itertools.product(RED, repeat=k):
            s = "".join((t, u) + rest)
            if "]..." not in s and ")..." not in s:
                continue
            if s != s.strip() or "  " in s:
                continue
            oc, _ = parse_outcome(s)
            if oc[0] == "ok":
                out.append(s)
    return out


def run(ctx):
    L = 5 if ctx.tier == "quick" else 6
    Lops = 4 if ctx.tier == "quick" else 5
    units = [("tokens", (), L)] + [("tokens", (t,), L) for t in TOK] + [("tokens", (t, u), L) for t in TOK for u in TOK]
    # foreign characters: every string of <= 2 printable ASCII characters, plus foreign fragments embedded in valid text
    printable = [chr(c) for c in range(32, 127)]
    foreign = [a for a in printable] + [a + b for a in printable for b in printable]
    for f in FOREIGN:
        for ctxs in ("{}", "a {} b", "a{}b", "({})", "[{}]", "a -> {}", "{} -> a", "a, {}", "(a + {})", "{}..."):
            foreign.append(ctxs.format(f))
    units += [("strings", tuple(c), 0) for c in runner.chunks(foreign, 400)]
    hist = collections.Counter()
    accepted = []
    n = sv = rt = msgs = 0
    for out in runner.pmap(work, units, chunksize=1):
        n += out["n"]; sv += out["space_variants"]; rt += out["roundtrips"]; msgs += out["msgs"]
        hist.update(out["hist"])
        accepted.extend(out["accepted"])
        for sig, what, rp in out["viol"]:
            ctx.violation(sig, what, rp)
    accepted.sort(key=lambda s: (len(s), s))
    short = [s for s in accepted if sum(1 for _ in re.finditer(r"\.\.\.|->|.", s)) <= Lops]
    # second family for the public-op pass: ALL strings of <= 7 tokens over the reduced alphabet {a b [ ] ( ) ... blank} that the parser accepts and
    # that put a group under an ellipsis (the only place where str(tree) is not the surface syntax)
    RED = ["a", "b", "[", "]", "(", ")", "...", " "]
    L2 = 6 if ctx.tier == "quick" else 7
    grp = []
    for out in runner.pmap(work_grouped, [(t, u, L2, RED) for t in RED for u in RED], chunksize=1):
        grp.extend(out)
    # third family (structural instead of by token count): every bracket/parenthesis group of nesting depth <= 2 over <= 2 items, placed under an ellipsis
    # in 4 contexts, e.g. '([a b])...', '[(a) b]...', 'a ((a) [b])... b'
    level0 = ["a", "b"]
    seq1 = level0 + [f"{x} {y}" for x in level0 for y in level0]
    level1 = level0 + [f"[{q}]" for q in seq1] + [f"({q})" for q in seq1]
    seq2 = level1 + [f"{x} {y}" for x in level1 for y in level1]
    groups = sorted({f"[{q}]" for q in seq2} | {f"({q})" for q in seq2})
    structural = []
    for gname in groups:
        for c in ("{}...", "a {}...", "{}... b", "b {}... a"):
            s_ = c.format(gname)
            if parse_outcome(s_)[0][0] == "ok": structural.append(s_)
    grp = sorted((set(grp) | set(structural)) - set(short), key=lambda s: (len(s), s))
    ohist = collections.Counter(); calls = 0
    for out in runner.pmap(work_ops, list(runner.chunks(short + grp, 8)), chunksize=1):
        calls += out["calls"]; ohist.update(out["hist"])
        for sig, what, rp in out["viol"]:
            ctx.violation(sig, what, rp)
    ctx.counters.update({f"parse:{k}": v for k, v in hist.items()})
    ctx.counters.update({f"op:{k}": v for k, v in ohist.items()})
    for s in accepted[:4] + accepted[len(accepted) // 2: len(accepted) // 2 + 4] + accepted[-4:]:
        ctx.sample({"string": s, "outcome": "accepted; round trip and all redundant-space variants checked"})
    ctx.coverage = {
        "evaluations": n + sv + rt + calls,
        "distinct_nontrivial": hist.get("ok", 0),
        "rule": f"all token sequences of length <= {L} over {TOK} (bijective to strings), all strings of <= 2 printable ASCII characters and "
                f"{len(FOREIGN)} foreign fragments in 10 contexts; every redundant-blank insertion of each; str()/re-parse of each accepted string; "
                f"each accepted string of <= {Lops} tokens, and each accepted string of <= {L2} tokens over {RED} with a group under an ellipsis ({len(grp)}), "
                f"through {OPS} at every rank tuple over small ranks. "
                "distinct_nontrivial = number of distinct strings the parser ACCEPTED (each a distinct tree checked for round trip and spacing)",
        "exhaustive": True, "token_length_bound": L, "strings": n, "space_variants": sv, "roundtrips": rt, "syntaxerror_messages_checked": msgs,
        "public_op_calls": calls, "distinct_parse_outcome_classes": len(hist),
    }
    ctx.assumptions = ["token alphabet uses two names and one number as representatives of names/numbers",
                       "per-parse time limit 10 s stands for termination"]


def replay(d):
    import einx
    m = d["mode"]
    if m == "parse":
        oc, _ = parse_outcome(d["s"])
        print("parse_op(%r) ->" % d["s"], oc)
        return not (oc[0] == "ok" or (oc[0] == "SyntaxError" and oc[1] is None))
    if m == "space":
        a, _ = parse_outcome(d["s"]); b, _ = parse_outcome(d["s2"])
        print(repr(d["s"]), "->", a, "\n", repr(d["s2"]), "->", b)
        return (a if a[0] == "ok" else a[0]) != (b if b[0] == "ok" else b[0])
    if m == "roundtrip":
        a, t = parse_outcome(d["s"])
        b, _ = parse_outcome(str(t))
        print(repr(d["s"]), "->", a, "; printed", repr(str(t)), "->", b)
        return a != b
    if m == "op":
        import numpy as np
        try:
            getattr(einx, d["op"])(d["s"], *[np.zeros((2,) * r, dtype="int64") for r in d["ranks"]])
        except einx.errors.SyntaxError as e:
            print(e)
            q = re.findall(r'Expression: "(.*)"\n', str(e))
            return (not q) or any(x != d["s"] for x in q)
        except Exception as e:
            print(type(e).__name__, e)
        return False
    raise ValueError(m)
