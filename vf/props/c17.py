"""C17 - generated code is loop-free and size-generic.

Explorer: E-IN.  Every corpus description is compiled (graph=True, no execution) under EVERY PAIR of size assignments from
{distinct primes, x2 scaling, x3 scaling, all-2, all-3} (none has a length-1 axis, numeric literals and coordinate counts are part of the
description and untouched) on all three backends; plus unit-axis variants compared among themselves.
Oracle: ast.parse of the text; node types restricted to a whitelist (no For/While/If/IfExp/comprehension/Lambda/Try/With); the ASTs of a
pair must be equal after replacing integer literals (and digit runs inside string constants) by a placeholder; equal number of Call nodes.
"""
import ast, re, itertools, collections, json
import numpy as np
from vf import runner, gen, calls

LEVEL = "exploration"
ALLOWED = (ast.Module, ast.Import, ast.ImportFrom, ast.alias, ast.FunctionDef, ast.arguments, ast.arg, ast.Return, ast.Assign, ast.AugAssign, ast.Expr, ast.Call, ast.keyword,
           ast.Attribute, ast.Name, ast.Constant, ast.Tuple, ast.List, ast.Dict, ast.Subscript, ast.Slice, ast.BinOp, ast.UnaryOp, ast.Compare, ast.Assert, ast.Load, ast.Store,
           ast.operator, ast.unaryop, ast.cmpop, ast.Starred)
FORBIDDEN = (ast.For, ast.While, ast.If, ast.IfExp, ast.ListComp, ast.SetComp, ast.DictComp, ast.GeneratorExp, ast.Lambda, ast.Try, ast.With, ast.AsyncFor, ast.AsyncWith)
SIZESETS = ["distinct", "x2", "all2", "x64", "x3", "all3"]


class Norm(ast.NodeTransformer):
    def visit_Constant(self, node):
        if isinstance(node.value, bool): return node
        if isinstance(node.value, int): return ast.copy_location(ast.Constant(value=0), node)
        if isinstance(node.value, str): return ast.copy_location(ast.Constant(value=re.sub(r"\d+", "#", node.value)), node)
        return node

    def visit_UnaryOp(self, node):
        # a negative integer literal is still an integer literal
        self.generic_visit(node)
        if isinstance(node.op, ast.USub) and isinstance(node.operand, ast.Constant) and isinstance(node.operand.value, int): return node.operand
        return node


def analyse(code):
    tree = ast.parse(code)
    bad = sorted({type(n).__name__ for n in ast.walk(tree) if isinstance(n, FORBIDDEN) or not isinstance(n, ALLOWED)})
    ncalls = sum(1 for n in ast.walk(tree) if isinstance(n, ast.Call))
    norm = ast.dump(Norm().visit(tree))
    return bad, ncalls, norm


def compile_text(call, be):
    import einx
    args = [np.broadcast_to(np.zeros((), dtype="int64"), s) for s in call.shapes]      # zero-strided: only the shape matters for tracing, nothing is allocated
    try:
        return calls.run_einx(call, args, backend=be, graph=True)
    except einx.errors.EinxError as e:
        return ("raise", type(e).__name__)
    except Exception as e:  # noqa
        return ("raise", type(e).__name__)


def work(items):
    hist = collections.Counter(); bad = []
    for dj in items:
        d = gen.Desc(dj["op"], tuple(map(_t, dj["ins"])), tuple(map(_t, dj["outs"])), {k: (tuple(v) if isinstance(v, list) else v) for k, v in dj["env"].items()}, dj["join"], dj["kw"], tuple(dj["decos"]))
        cs = {}
        for ss in (SIZESETS if not dj.get("quick") else SIZESETS[:4]):
            c = gen.materialize(d, ss)
            if c is not None: cs[ss] = c
        if len(cs) < 2:
            hist["skip"] += 1; continue
        for be in calls.BACKENDS:
            res = {}
            for ss, c in cs.items():
                t = compile_text(c, be)
                hist["compilations"] += 1
                if isinstance(t, tuple):
                    res[ss] = t; continue
                try:
                    res[ss] = ("ok",) + analyse(t) + (t,)
                except SyntaxError:
                    res[ss] = ("unparsable",)
                    bad.append(({"kind": "unparsable", "op": d.op, "desc": gen.show(d), "backend": be}, f"einx.{d.op}({gen.show(d)!r}) sizes {ss}: generated text does not parse", {"desc": dj, "backend": be}))
            oks = {ss: r for ss, r in res.items() if r[0] == "ok"}
            for ss, r in oks.items():
                if r[1] and len(bad) < 20:
                    bad.append(({"kind": "construct", "op": d.op, "desc": gen.show(d), "backend": be, "nodes": ",".join(r[1])},
                                f"einx.{d.op}({gen.show(d)!r}, backend={be}) generates code with {r[1]} (not straight-line):\n{r[4]}", {"desc": dj, "backend": be}))
            # outcome kind must agree too: a description that compiles at one size compiles at every size (same unit pattern)
            kinds = {ss: (r[0] if r[0] == "ok" else r) for ss, r in res.items()}
            if len(set(map(str, kinds.values()))) > 1:
                hist["mixed-outcomes"] += 1
            for (s1, r1), (s2, r2) in itertools.combinations(sorted(oks.items()), 2):
                hist["pairs"] += 1
                if r1[3] != r2[3] or r1[2] != r2[2]:
                    hist["DIFFER"] += 1
                    if len(bad) < 20:
                        bad.append(({"kind": "size-dependent", "op": d.op, "desc": gen.show(d), "backend": be, "sizes": f"{s1}/{s2}"},
                                    f"einx.{d.op}({gen.show(d)!r}, backend={be}): structure of the generated code differs between shapes {cs[s1].shapes} and {cs[s2].shapes} "
                                    f"({r1[2]} vs {r2[2]} calls):\n--- {s1}\n{r1[4]}\n--- {s2}\n{r2[4]}", {"desc": dj, "backend": be, "sizes": [s1, s2]}))
                else:
                    hist["pairs-equal"] += 1
            if oks: hist["descriptions-compiled"] += 1
    return dict(hist), bad


def _t(x):
    if isinstance(x, list): return tuple(_t(i) for i in x)
    return x


def desc_json(d):
    return {"op": d.op, "ins": d.ins, "outs": d.outs, "env": d.env, "join": d.join, "kw": d.kw, "decos": d.decos}


def gen_unit(u):
    ops, Rk, k = u
    return [json.loads(json.dumps(desc_json(d))) for d in gen.corpus_descs(ops, Rk, k)]


QUICK = [(["id"], 3, 1), (["id"], 4, 0), (["sum"], 3, 1), (["max", "logsumexp"], 2, 1), (["add"], 2, 0), (["add"], 1, 1), (["where"], 1, 1), (["dot"], 3, 0), (["get_at"], 3, 0), (["get_at"], 1, 1),
         (["add_at"], 3, 0), (["set_at"], 2, 0), (["add_at"], 1, 1), (["flip", "argmax"], 3, 1), (["softmax", "roll", "sort", "argsort"], 2, 1)]
THOROUGH = [(["id"], 3, 1), (["id"], 4, 1), (["id"], 2, 2), (["sum", "max", "mean", "logsumexp", "var"], 3, 1), (["add", "subtract"], 2, 1), (["where"], 2, 0), (["where"], 1, 1), (["add"], 3, 0), (["dot"], 3, 0),
            (["dot"], 2, 1), (["get_at"], 3, 0), (["get_at"], 2, 1), (["add_at", "set_at"], 3, 0), (["add_at", "subtract_at"], 2, 1), (["flip", "argmax", "softmax", "roll", "sort"], 3, 1),
            (["argsort", "log_softmax", "argmin"], 2, 1)]


def run(ctx):
    plan = QUICK if ctx.tier == "quick" else THOROUGH
    units = [([op], Rk, k) for ops, Rk, k in plan for op in ops]
    items = []; seen = set()
    for lst in runner.pmap(gen_unit, units, chunksize=1):
        for dj in lst:
            key = json.dumps(dj, sort_keys=True)
            if key not in seen:
                seen.add(key); dj["quick"] = ctx.tier == "quick"; items.append(dj)
    hist = collections.Counter()
    chunks = list(runner.chunks(items, 30))
    import random
    random.Random(ctx.seed).shuffle(chunks)
    for h, bad in runner.pmap(work, chunks, chunksize=1):
        hist.update(h)
        for sig, what, rp in bad: ctx.violation(sig, what, rp)
    ctx.counters.update(hist)
    for dj in items[:: max(1, len(items) // 8)][:8]:
        d = gen.Desc(dj["op"], tuple(map(_t, dj["ins"])), tuple(map(_t, dj["outs"])), dj["env"], dj["join"], dj["kw"], tuple(dj["decos"]))
        ctx.sample({"call": f"einx.{d.op}({gen.show(d)!r}, graph=True)", "size_assignments": SIZESETS})
    ctx.coverage = {
        "evaluations": hist.get("compilations", 0), "distinct_nontrivial": hist.get("descriptions-compiled", 0),
        "rule": f"descriptions = corpus (plan {plan}); each compiled with graph=True under size assignments {SIZESETS} on 3 backends; every pair of assignments compared "
                "(normalised AST equality + equal Call count); node-type whitelist. distinct_nontrivial = distinct (description, backend) that compiled under >= 1 assignment",
        "exhaustive": True, "descriptions": len(items), "pairs_compared": hist.get("pairs", 0), "pairs_equal": hist.get("pairs-equal", 0),
    }
    ctx.assumptions = ["no size assignment contains a length-1 axis, so all five agree on which axes have length 1", "numeric literals in the description are part of the description"]


def replay(d):
    h, bad = work([d["desc"]])
    hits = [b for b in bad if b[0]["backend"] == d["backend"]]
    for b in hits: print(b[1])
    return bool(hits)
