"""RefSem self-test: the documentation's own examples evaluated by RefSem against numpy formulas written by hand.
Run before every check that uses RefSem as an oracle; a failure is a harness error, never a VIOLATION."""
import numpy as np
from vf.refsem import evaluate, NoSolution, Ambiguous


def run():
    rng = np.random.default_rng(0)
    fails = []

    def chk(name, got, exp):
        if isinstance(got, tuple) and len(got) == 2 and isinstance(got[1], dict): got = got[0]
        ok = np.asarray(got).shape == np.asarray(exp).shape and np.allclose(got, exp)
        if not ok: fails.append(name)
    x = rng.integers(1, 9, (2, 6))
    chk("id flatten", evaluate("id", "a (b c) -> (b a) c", [x], dict(b=2)), x.reshape(2, 2, 3).transpose(1, 0, 2).reshape(4, 3))
    z = rng.integers(1, 9, (5, 4))
    w1, w2 = evaluate("id", "(a + b) c -> a c, b c", [z], dict(a=3)); chk("split", w1, z[:3]); chk("split2", w2, z[3:])
    v = rng.integers(1, 9, (4,)); im = rng.integers(1, 9, (2, 3, 4))
    chk("cat", evaluate("id", "c, h w c -> (1 + (h w)) c", [v, im]), np.concatenate([v[None], im.reshape(6, 4)], 0))
    chk("append", evaluate("id", "b c, -> b (c + 1)", [z, 42]), np.concatenate([z, np.full((5, 1), 42)], 1))
    chk("concat2", evaluate("id", "a c, b c -> (a + b) c", [z[:2], z[2:]]), z)
    x3 = rng.integers(1, 9, (2, 3, 4))
    chk("sum a [b] c", evaluate("sum", "a [b] c -> a c", [x3]), x3.sum(1))
    chk("sum groups", evaluate("sum", "a (b [c]) -> a b", [x], dict(c=3)), x.reshape(2, 2, 3).sum(2))
    chk("sum even/odd", evaluate("sum", "a ([b] c) -> a c", [x], dict(c=2)), x.reshape(2, 3, 2).sum(1))
    x4 = rng.integers(1, 9, (2, 4, 6, 3))
    chk("pool", evaluate("sum", "b (s [ds])... c -> b s... c", [x4], dict(ds=(2, 2))), x4.reshape(2, 2, 2, 3, 2, 3).sum((2, 4)))
    chk("mean spatial", evaluate("mean", "b [s]... c -> b c", [x4]), x4.mean((1, 2)))
    chk("sum ellipsis", evaluate("sum", "s... [c] -> s...", [x4]), x4.sum(-1))
    chk("sum ellipsis0", evaluate("sum", "s... [c] -> s...", [x4[0, 0, 0]]), x4[0, 0, 0].sum())
    chk("whole-matrix sum", evaluate("sum", "[a] [a] -> ", [x3[:, :2, 0]]), x3[:, :2, 0].sum())
    a = rng.integers(1, 9, (2, 3)); b = rng.integers(1, 9, (4, 5))
    chk("kron", evaluate("multiply", "a..., b... -> (a b)...", [a, b]), np.kron(a, b))
    chk("outer add", evaluate("add", "a, b -> a b", [a[0], b[0]]), a[0][:, None] + b[0][None])
    chk("add bcast", evaluate("add", "a b, b -> a b", [a, a[0]]), a + a[0])
    chk("add a..., b...", evaluate("add", "a..., b... -> a... b...", [a, b]), a[:, :, None, None] + b[None, None])
    m = rng.integers(1, 9, (3, 4)); chk("matmul", evaluate("dot", "a [b], [b] c -> a c", [a, m]), a @ m)
    img = rng.integers(1, 9, (2, 4, 5, 3)); idx = np.stack([rng.integers(0, 4, (2, 7)), rng.integers(0, 5, (2, 7))], -1)
    exp = np.stack([img[bi, idx[bi, :, 0], idx[bi, :, 1]] for bi in range(2)])
    chk("gather", evaluate("get_at", "b [h w] c, b i [2] -> b i c", [img, idx]), exp)
    chk("gather2", evaluate("get_at", "b [h w] c, b i, b i -> b i c", [img, idx[..., 0], idx[..., 1]]), exp)
    chk("flip pairs", evaluate("flip", "... (g [c]) -> ... (g [c])", [x], dict(c=2)), x.reshape(2, 3, 2)[:, :, ::-1].reshape(2, 6))
    chk("roll", evaluate("roll", "a [b] -> a [b]", [x], shift=2), np.roll(x, 2, axis=1))
    chk("sort", evaluate("sort", "a [b] -> a [b]", [x]), np.sort(x, axis=1))
    chk("softmax", evaluate("softmax", "a [b] -> a [b]", [x / 4.0]), np.exp(x / 4.0) / np.exp(x / 4.0).sum(1, keepdims=True))
    chk("argmax", evaluate("argmax", "b [h w] c -> b [2] c", [img]),
        np.stack(np.unravel_index(img.transpose(0, 3, 1, 2).reshape(2, 3, 20).argmax(-1), (4, 5)), 1))
    chk("argmax1", evaluate("argmax", "a [b] -> a", [x]), x.argmax(1))
    d4 = rng.integers(1, 9, (2, 3, 2, 4))
    chk("diag", evaluate("id", "a e a d -> a d e", [d4]), np.stack([d4[i, :, i, :] for i in range(2)]).transpose(0, 2, 1))
    tgt = np.zeros((3, 5)); ix = np.array([[0, 1], [2, 3], [4, 0]]); up = np.array([1., 2., 3.])
    e = tgt.copy()
    for ai in range(3):
        for ei in range(2): e[ai, ix[ai, ei]] += up[ai]
    chk("add_at bcast", evaluate("add_at", "a [b], a e, a -> a [b]", [tgt, ix, up]), e)
    e2 = tgt.copy()
    for ai in range(3):
        for ei in range(2): e2[ai, ix[ai, ei]] = up[ai]
    chk("set_at bcast", evaluate("set_at", "a [b], a e, a -> a [b]", [tgt, ix, up]), e2)
    for d, arrs, s, want in [("(b 3) -> b", [np.zeros(4)], {}, NoSolution), ("a b -> a c", [np.zeros((2, 3))], {}, Ambiguous),
                             ("(a b) -> a b", [np.zeros(6)], {}, Ambiguous), ("a b c -> a c b", [np.zeros((3, 4))], {}, NoSolution)]:
        try:
            evaluate("id", d, arrs, s); fails.append("solved " + d)
        except want:
            pass
        except Exception as ex:
            fails.append(f"{d}: {type(ex).__name__}")
    return fails


if __name__ == "__main__":
    f = run()
    print("FAILS:", f)
