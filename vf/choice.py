"""E-CHOICE: exhaustive exploration of the orders in which einx consumes unordered collections.

Requires the guarded hook einx/_src/util/_verif.py (FFERFLO_EINX_VERIF=1): choose_order(collection, site) consults a callback installed by
the harness.  For every call: one recording run (identity answers) lists the choice points; then every alternative order at every choice
point (all permutations for <= 4 elements, else reversal, rotations and adjacent transpositions), `deviations` points deviating at a time.
"""
import itertools, collections, json
import numpy as np
from vf import runner, gen, calls


def alternatives(n):
    if n <= 1:
        return []
    if n <= 4:
        return [p for p in itertools.permutations(range(n)) if list(p) != list(range(n))]
    out = [tuple(range(n))[::-1]]
    for r in range(1, n):
        out.append(tuple(range(r, n)) + tuple(range(r)))
    for i in range(n - 1):
        p = list(range(n)); p[i], p[i + 1] = p[i + 1], p[i]; out.append(tuple(p))
    return list(dict.fromkeys(out))


def work(chunk):
    deviations, items = chunk
    try:
        from einx._src.util import _verif
    except ImportError:
        return {"hook_missing": len(items)}, []
    from vf.props.c10 import find_caches
    from vf.props.c16 import outcome_digest
    import einx
    caches = find_caches(einx)
    hist = collections.Counter(); cands = []
    for j in items:
        call = gen.Call.from_json(j)
        try:
            args = calls.build_args(call, 0)
        except Exception:
            continue
        points = []

        def record(coll, site):
            coll = sorted(coll, key=repr) if False else list(coll)
            points.append((site, len(coll)))
            return coll
        for cc in caches: cc()
        _verif.set_callback(record)
        try:
            base = outcome_digest(call, args)
        finally:
            _verif.set_callback(None)
        hist["calls"] += 1; hist["choice_points"] += len(points)
        pts = [(i, s, n) for i, (s, n) in enumerate(points) if n > 1]
        plans = []
        for i, s, n in pts:
            for alt in alternatives(n):
                plans.append({i: alt})
        if deviations >= 2:
            for (i1, s1, n1), (i2, s2, n2) in itertools.combinations(pts, 2):
                for a1 in alternatives(n1)[:3]:
                    for a2 in alternatives(n2)[:3]:
                        plans.append({i1: a1, i2: a2})
        for plan in plans:
            k = [0]

            def answer(coll, site):
                coll = list(coll)
                i = k[0]; k[0] += 1
                p = plan.get(i)
                if p is not None and len(p) == len(coll):
                    return [coll[x] for x in p]
                return coll
            for cc in caches: cc()
            _verif.set_callback(answer)
            try:
                o = outcome_digest(call, args)
            finally:
                _verif.set_callback(None)
            hist["orders_explored"] += 1
            if o != base:
                hist["candidates"] += 1
                cands.append((j, {str(i): list(p) for i, p in plan.items()}, [points[i][0] for i in plan], base[:1], o[:1]))
                break
        for cc in caches: cc()
    return dict(hist), cands


def explore(ctx, items, deviations=1):
    """returns counters; candidates are confirmed with real hash seeds before being reported"""
    from vf.props import c16
    sub = [j for j in items if j.get("sizeset") == "extra"] + items[:: max(1, len(items) // (250 if ctx.tier == "quick" else 1500))]
    hist = collections.Counter(); cands = []
    for h, c in runner.pmap(work, [(deviations, ch) for ch in runner.chunks(sub, 6)], chunksize=1):
        hist.update(h); cands.extend(c)
    hist["calls_selected"] = len(sub)
    if hist.get("hook_missing"):
        raise RuntimeError("the guarded verification hook einx/_src/util/_verif.py is missing: choice exploration impossible")
    # confirmation with real seeds: a candidate is a violation only if two real hash seeds disagree
    confirmed = 0
    for j, plan, sites, b, o in cands[:12]:
        per = {}
        for s in range(0, 16):
            per[s] = json.dumps(c16.spawn([j], "values", s, None, 1)[0])
            if len(set(per.values())) > 1:
                break
        if len(set(per.values())) > 1:
            confirmed += 1
            vals = list(dict.fromkeys(per.values()))
            s1 = [s for s, v in per.items() if v == vals[0]][0]; s2 = [s for s, v in per.items() if v == vals[1]][0]
            ctx.violation({"kind": "hashseed", "op": j["op"], "desc": j["desc"], "shapes": str(j["shapes"])},
                          f"einx.{j['op']}({j['desc']!r}, shapes={j['shapes']}): the order chosen at {sites} changes the outcome, and PYTHONHASHSEED={s1} / {s2} really produce the two outcomes",
                          {"call": j, "seeds": [s1, s2]})
    hist["candidates_confirmed_by_real_seeds"] = confirmed
    hist["candidates_unconfirmed"] = min(len(cands), 12) - confirmed
    return dict(hist)
