"""Turning corpus Calls into concrete arguments, running them through einx and through RefSem, comparing outcomes."""
import itertools, zlib
import numpy as np
from vf import refsem as R
from vf import gen

FLOAT_OPS = {"mean", "var", "std", "logsumexp", "softmax", "log_softmax", "true_divide", "divide", "logaddexp"}
BOOL_OPS = {"any", "all", "logical_and", "logical_or"}
INJECTIVE_OPS = {"id", "get_at", "flip", "roll", "sort", "argsort", "argmax", "argmin", "max", "min", "set_at", "maximum", "minimum", "less", "less_equal",
                 "greater", "greater_equal", "equal", "not_equal"}
BACKENDS = ["numpy", "numpy.numpylike", "numpy.einsum"]


def _rng(call, seed, pos):
    return np.random.default_rng([seed, zlib.crc32(call.desc.encode()) & 0xFFFF, pos, zlib.crc32(call.op.encode()) & 0xFF])


def solved(call):
    """RefSem view of the call: (parsed ins, outs, expanded tensors, values) or raises"""
    ins, outs = R.parse(call.desc)
    if outs is None:
        raise R.ParseError("long form required")
    R.check_brackets(ins + outs)
    shapes = list(call.shapes) + [None] * len(outs)
    ex, vals = R.solve(ins + outs, shapes, dict(call.sizes))
    return ins, outs, ex, vals


def build_args(call, seed=0):
    """deterministic contents chosen so that the oracle is sharp (injective for data movement, exact small integers for arithmetic,
    in-range coordinates with duplicates)"""
    op = call.op
    fam = gen.OP_FAMILY[op]
    args = []
    coord_info = None
    if fam in ("get_at", "update_at"):
        coord_info = _coord_plan(call)
    for pos, shape in enumerate(call.shapes):
        rng = _rng(call, seed, pos)
        n = int(np.prod(shape)) if len(shape) else 1
        is_coord = fam == "get_at" and pos >= 1 or fam == "update_at" and 1 <= pos < len(call.shapes) - 1
        if is_coord:
            args.append(_coords(call, pos, shape, coord_info, rng))
            continue
        if op == "where" and pos == 0 or op in BOOL_OPS:
            a = rng.integers(0, 2, n).astype(bool)
        elif op in FLOAT_OPS:
            a = np.round(rng.random(n) * 4 + 0.5, 3)
        elif op in ("floor_divide",):
            a = rng.integers(1, 10, n).astype("int64")
        elif op == "prod":
            a = rng.integers(1, 4, n).astype("int64")
        elif op == "count_nonzero":
            a = rng.integers(0, 3, n).astype("int64")
        elif op in INJECTIVE_OPS or fam == "update_at" and pos == 0:
            a = (rng.permutation(3 * n + 5)[:n] + 1 + 100 * pos).astype("int64")
        else:
            a = rng.integers(1, 10, n).astype("int64") + 10 * pos
        args.append(a.reshape(shape))
    return args


def _coord_plan(call):
    """sizes of the bracketed target axes, in order, from the RefSem solution"""
    ins, outs, ex, vals = solved(call)
    L = dict(vals)
    for n in R.walk(ex):
        if isinstance(n, R.Num): L[n.name] = n.v
    tgt = ex[0]
    bsizes = [L[n] for n, b in R.leaf_axes(tgt) if b]
    return {"ex": ex, "vals": vals, "L": L, "bsizes": bsizes}


def _coords(call, pos, shape, info, rng):
    fam = gen.OP_FAMILY[call.op]
    ex, vals, L, bsizes = info["ex"], info["vals"], info["L"], info["bsizes"]
    ncoord_tensors = (len(call.shapes) - 1) if fam == "get_at" else (len(call.shapes) - 2)
    offset = 0
    for p in range(1, pos):
        t = ex[p]
        bl = [n for n, b in R.leaf_axes(t) if b]
        offset += L[bl[0]] if bl else 1
    t = ex[pos]
    leaves = R.leaf_axes(t)
    bl = [n for n, b in leaves if b]
    vn = list(dict.fromkeys(n for n, b in leaves if not b))
    out = np.zeros(shape, dtype="int64")
    cnt = L[bl[0]] if bl else 1
    for idx in itertools.product(*[range(L[n]) for n in vn]):
        asg = dict(zip(vn, idx))
        for j in range(cnt):
            asg2 = dict(asg)
            if bl: asg2[bl[0]] = j
            size = bsizes[offset + j] if offset + j < len(bsizes) else 1
            # duplicates on purpose: draw from a range smaller than the axis when possible
            out[R.tensor_index(t, vals, asg2, [0] * len(R.flat_items(t)))] = int(rng.integers(0, size))
    return out


def einx_kwargs(call):
    kw = {}
    for k, v in call.sizes.items():
        kw[k] = v
    kw.update(call.kw)
    return kw


def run_einx(call, args, backend=None, graph=False):
    import einx
    kw = einx_kwargs(call)
    if backend is not None: kw["backend"] = backend
    if graph: kw["graph"] = True
    return getattr(einx, call.op)(call.desc, *args, **kw)


def run_ref(call, args):
    return R.evaluate(call.op, call.desc, args, dict(call.sizes), **call.kw)


def same_value(call, got, exp):
    """exact for integer/boolean data and data movement, allclose for float ops; shapes must be equal.  exp may be (array, allowed) for set_at"""
    if isinstance(exp, tuple) and len(exp) == 2 and isinstance(exp[1], dict):
        arr, allowed = exp
        got = np.asarray(got)
        if got.shape != arr.shape: return False
        for idx in np.ndindex(arr.shape):
            if idx in allowed:
                if got[idx].item() not in allowed[idx]: return False
            elif got[idx] != arr[idx]: return False
        return True
    if isinstance(exp, tuple):
        if not isinstance(got, (tuple, list)) or len(got) != len(exp): return False
        return all(same_value(call, g, e) for g, e in zip(got, exp))
    got = np.asarray(got); exp = np.asarray(exp)
    if got.shape != exp.shape: return False
    if call.op in FLOAT_OPS or got.dtype.kind == "f" or exp.dtype.kind == "f":
        return bool(np.allclose(got.astype("float64"), exp.astype("float64"), rtol=1e-7, atol=1e-9, equal_nan=True))
    return bool(np.array_equal(got, exp))
