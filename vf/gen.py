"""Bounded exhaustive enumerator of einx calls (the shared corpus).

Level 1: flat skeletons per operation family (all axis sequences up to rank R over <= 3-4 names, all bracket placements the family
allows, all output permutations).  Level 2: every way of applying <= k decorations (deviations from the plain case) from a finite
menu.  No random choice anywhere: the set of calls depends only on (family, R, k).

Expression items (immutable tuples):
    ("a", name, br)       named axis            ("n", value, br)   number
    ("g", items)          parenthesised group   ("c", items)       concatenation
    ("e", item|None, br)  ellipsis over an axis/group, or anonymous (None); br: anonymous one is bracketed / "[x...]" style
"""
import itertools, collections
from vf import refsem as R

NAMES = "abcd"
Desc = collections.namedtuple("Desc", "op ins outs env join kw decos")


# ------------------------------------------------------------------------------------------------ printing
def show_item(it, join):
    k = it[0]
    if k == "a":
        return f"[{it[1]}]" if it[2] else it[1]
    if k == "n":
        return f"[{it[1]}]" if it[2] else str(it[1])
    if k == "g":
        return "(" + show_items(it[1], join) + ")"
    if k == "c":
        return "(" + " + ".join(show_item(x, join) for x in it[1]) + ")"
    if k == "e":
        if it[1] is None:
            return "[...]" if it[2] else "..."
        inner = it[1]
        if inner[0] in "an" and inner[2] and it[2]:          # "[x...]" style
            return "[" + str(inner[1]) + "...]"
        return show_item(inner, join) + "..."
    raise ValueError(it)


def show_items(items, join):
    out = []
    i = 0
    while i < len(items):
        it = items[i]
        if join and it[0] in "an" and it[2]:
            j = i
            run = []
            while j < len(items) and items[j][0] in "an" and items[j][2]:
                run.append(str(items[j][1])); j += 1
            out.append("[" + " ".join(run) + "]")
            i = j
        else:
            out.append(show_item(it, join)); i += 1
    return " ".join(out)


def show(d):
    s = ", ".join(show_items(t, d.join) for t in d.ins)
    if d.outs is not None:
        s += " -> " + ", ".join(show_items(t, d.join) for t in d.outs)
    return s


def leaves(items):
    for it in items:
        if it[0] in "an":
            yield it
        elif it[0] in "gc":
            yield from leaves(it[1])
        elif it[0] == "e" and it[1] is not None:
            yield from leaves([it[1]])


def names_of(items):
    return [l[1] for l in leaves(items) if l[0] == "a"]


# ------------------------------------------------------------------------------------------------ level 1: skeletons
def canon_seqs(maxrank, maxnames=3, minrank=0, repeats=True):
    def rec(seq, used):
        if minrank <= len(seq) <= maxrank:
            yield tuple(seq)
        if len(seq) == maxrank:
            return
        for i in range(min(used + 1, maxnames)):
            if not repeats and NAMES[i] in seq:
                continue
            yield from rec(seq + [NAMES[i]], max(used, i + 1))
    yield from rec([], 0)


def ax(n, br=False):
    return ("a", n, br)


def mk(op, ins, outs, env=None, kw=None):
    return Desc(op, tuple(tuple(t) for t in ins), None if outs is None else tuple(tuple(t) for t in outs), dict(env or {}), False, dict(kw or {}), ())


def subsets(n, lo=1):
    for k in range(lo, n + 1):
        yield from itertools.combinations(range(n), k)


def sk_id(Rk):
    for inp in canon_seqs(Rk):
        names = list(dict.fromkeys(inp))
        for perm in itertools.permutations(names):
            yield mk("id", [[ax(n) for n in inp]], [[ax(n) for n in perm]])
    # two inputs, two outputs
    for i1 in canon_seqs(min(Rk, 2), repeats=False):
        for i2 in canon_seqs(min(Rk, 2), repeats=False):
            for p1 in itertools.permutations(i1):
                for p2 in itertools.permutations(i2):
                    if p1 == i1 and p2 == i2 and (len(i1) > 1 or len(i2) > 1):
                        continue
                    yield mk("id", [[ax(n) for n in i1], [ax(n) for n in i2]], [[ax(n) for n in p1], [ax(n) for n in p2]])


def sk_id_blocks():
    """two concatenations in one tensor: block-matrix assembly / splitting (inputs and outputs are paired with the blocks in row-major order)"""
    A, B, C, D = ax("a"), ax("b"), ax("c"), ax("d")
    cat1, cat2 = ("c", (A, B)), ("c", (C, D))
    blocks = [[A, C], [A, D], [B, C], [B, D]]
    yield mk("id", blocks, [[cat1, cat2]])
    yield mk("id", [[cat1, cat2]], blocks, env={"a": 2, "c": 3})
    yield mk("id", [[C, A], [D, A], [C, B], [D, B]], [[cat1, cat2]])
    yield mk("id", [[A, C], [B, C], [A, D], [B, D]], [[cat2, cat1]])
    yield mk("id", [[A, ax("m"), C], [A, ax("m"), D], [B, ax("m"), C], [B, ax("m"), D]], [[cat1, ax("m"), cat2]])
    yield mk("id", [[cat1, ax("m"), cat2]], [[A, C, ax("m")], [A, D, ax("m")], [B, C, ax("m")], [B, D, ax("m")]], env={"a": 2, "c": 3})
    # three-way concatenation and a concatenation with a flattened term
    yield mk("id", [[A], [B], [C]], [[("c", (A, B, C))]])
    yield mk("id", [[A, C], [B]], [[("c", (("g", (A, C)), B))]])
    yield mk("id", [[("c", (("g", (A, C)), B))]], [[C, A], [B]], env={"a": 2, "c": 3})


def sk_reduce(Rk, op="sum"):
    for inp in canon_seqs(Rk, minrank=1):
        n = len(inp)
        for marked in subsets(n):
            bn = {inp[i] for i in marked}
            if any(inp[i] in bn for i in range(n) if i not in marked):
                continue
            rest = list(dict.fromkeys(inp[i] for i in range(n) if i not in marked))
            for perm in itertools.permutations(rest):
                yield mk(op, [[ax(x, i in marked) for i, x in enumerate(inp)]], [[ax(x) for x in perm]])


def sk_elem(Rk, op="add", nin=2):
    seqs = [s for s in canon_seqs(Rk, maxnames=3)]
    raw = list(itertools.chain.from_iterable(itertools.product(NAMES[:3], repeat=r) for r in range(0, Rk + 1)))
    for i1 in seqs:
        for rest in itertools.product(raw, repeat=nin - 1):
            if sum(len(x) for x in (i1,) + rest) > Rk + nin - 1 + (1 if nin == 2 else 0):
                continue
            names = list(dict.fromkeys(list(i1) + [n for r in rest for n in r]))
            # canonical naming: first occurrence order a, b, c
            if names != list(NAMES[:len(names)]):
                continue
            for perm in itertools.permutations(names):
                yield mk(op, [[ax(n) for n in t] for t in (i1,) + rest], [[ax(n) for n in perm]])


def sk_dot(Rk):
    for i1 in canon_seqs(Rk, minrank=1, repeats=False, maxnames=4):
        for i2 in itertools.chain.from_iterable(itertools.permutations(NAMES[:4], r) for r in range(1, Rk + 1)):
            alln = list(dict.fromkeys(list(i1) + list(i2)))
            if alln != list(NAMES[:len(alln)]) or len(alln) > 4:
                continue
            shared = [n for n in i1 if n in i2]
            for k in range(1, len(shared) + 1):
                for contr in itertools.combinations(shared, k):
                    outn = [n for n in alln if n not in contr]
                    for perm in itertools.permutations(outn):
                        yield mk("dot", [[ax(n, n in contr) for n in i1], [ax(n, n in contr) for n in i2]], [[ax(n) for n in perm]])


def sk_dot3():
    """three operands (chains and a shared batch axis)"""
    A, B, C, D = "abcd"
    yield mk("dot", [[ax(A), ax(B, True)], [ax(B, True), ax(C, True)], [ax(C, True), ax(D)]], [[ax(A), ax(D)]])
    yield mk("dot", [[ax(A), ax(B, True)], [ax(C, True), ax(B, True)], [ax(D), ax(C, True)]], [[ax(D), ax(A)]])
    yield mk("dot", [[ax(A), ax(B, True)], [ax(A), ax(B, True), ax(C, True)], [ax(C, True), ax(A)]], [[ax(A)]])


def sk_preserve(Rk, op="flip"):
    for inp in canon_seqs(Rk, minrank=1, repeats=False):
        n = len(inp)
        for marked in subsets(n):
            if op in ("sort", "argsort") and len(marked) != 1:
                continue
            items = [ax(x, i in marked) for i, x in enumerate(inp)]
            for perm in itertools.permutations(range(n)):
                br = [i for i in perm if i in marked]
                if br != sorted(br):
                    continue
                kw = {"shift": tuple(range(1, len(marked) + 1)) if len(marked) > 1 else 1} if op == "roll" else {}
                yield mk(op, [items], [[items[i] for i in perm]], kw=kw)


def sk_argfind(Rk, op="argmax"):
    for inp in canon_seqs(Rk, minrank=1, repeats=False):
        n = len(inp)
        for marked in subsets(n):
            items = [ax(x, i in marked) for i, x in enumerate(inp)]
            rest = [inp[i] for i in range(n) if i not in marked]
            for perm in itertools.permutations(rest):
                for p in range(len(perm) + 1):
                    out = [ax(x) for x in perm[:p]] + [("n", len(marked), True)] + [ax(x) for x in perm[p:]]
                    yield mk(op, [items], [out])
                if len(marked) == 1:
                    yield mk(op, [items], [[ax(x) for x in perm]])


def _coord_variants(tvec, nb, extra="i"):
    """coordinate tensor lists for nb bracketed target axes: one tensor with a bracketed count axis at any position, or nb scalar-coordinate
    tensors; vectorised axes: every subset of the target's vectorised axes in every order, optionally plus a fresh index axis"""
    pools = []
    for k in range(0, len(tvec) + 1):
        for sub in itertools.permutations(tvec, k):
            pools.append(list(sub))
            pools.append(list(sub) + [extra])
            if sub:
                pools.append([extra] + list(sub))
    seen = set()
    for vec in pools:
        if tuple(vec) in seen:
            continue
        seen.add(tuple(vec))
        for p in range(len(vec) + 1):
            yield [[ax(x) for x in vec[:p]] + [("n", nb, True)] + [ax(x) for x in vec[p:]]]
        if nb == 1:
            yield [[ax(x) for x in vec]]
        if nb == 2:
            yield [[ax(x) for x in vec], [ax(x) for x in vec]]
            if vec:
                yield [[ax(x) for x in vec], [ax(x) for x in vec[::-1]]]


def sk_get_at(Rk):
    for tgt in canon_seqs(Rk, minrank=1, repeats=False):
        n = len(tgt)
        for marked in subsets(n):
            if len(marked) > 2:
                continue
            titems = [ax(x, i in marked) for i, x in enumerate(tgt)]
            tvec = [tgt[i] for i in range(n) if i not in marked]
            for coords in _coord_variants(tvec, len(marked)):
                cvec = list(dict.fromkeys(x for c in coords for x in names_of(c)))
                outn = list(dict.fromkeys(tvec + cvec))
                for perm in itertools.permutations(outn):
                    if len(outn) > 2 and list(perm) not in (outn, outn[::-1], outn[1:] + outn[:1]):
                        continue
                    yield mk("get_at", [titems] + coords, [[ax(x) for x in perm]])


def sk_update_at(Rk, op="add_at"):
    for tgt in canon_seqs(Rk, minrank=1, repeats=False):
        n = len(tgt)
        for marked in subsets(n):
            if len(marked) > 2:
                continue
            titems = [ax(x, i in marked) for i, x in enumerate(tgt)]
            tvec = [tgt[i] for i in range(n) if i not in marked]
            for coords in _coord_variants(tvec, len(marked)):
                cvec = list(dict.fromkeys(x for c in coords for x in names_of(c)))
                allv = list(dict.fromkeys(tvec + cvec))
                # update expression: every subset of the vectorised axes in canonical and reversed order
                # output: the target expression itself, or a permutation of its items that keeps the bracketed items in order (at most two of them)
                outs = [titems]
                for p in itertools.permutations(range(n)):
                    if list(p) != list(range(n)) and [i for i in p if i in marked] == sorted(marked):
                        outs.append([titems[i] for i in p])
                outs = [outs[0]] + outs[1:][::max(1, (len(outs) - 1) // 2)][:2]
                for k in range(0, len(allv) + 1):
                    for sub in itertools.combinations(allv, k):
                        for order in ({tuple(sub), tuple(sub[::-1])}):
                            for oi, out in enumerate(outs):
                                if oi > 0 and (k not in (0, len(allv)) or order != tuple(sub)):
                                    continue        # permuted outputs only with the smallest and the largest update expression
                                yield mk(op, [titems] + coords + [[ax(x) for x in order]], [out])


FAMILY_OPS = {
    "id": ["id"],
    "reduce": ["sum", "mean", "var", "std", "prod", "count_nonzero", "any", "all", "max", "min", "logsumexp"],
    "elementwise": ["add", "subtract", "multiply", "true_divide", "floor_divide", "divide", "logical_and", "logical_or", "where", "maximum", "minimum",
                    "less", "less_equal", "greater", "greater_equal", "equal", "not_equal", "logaddexp"],
    "dot": ["dot"],
    "get_at": ["get_at"],
    "update_at": ["set_at", "add_at", "subtract_at"],
    "preserve_shape": ["flip", "roll", "sort", "argsort", "softmax", "log_softmax"],
    "argfind": ["argmax", "argmin"],
}
OP_FAMILY = {op: fam for fam, ops in FAMILY_OPS.items() for op in ops}
BINARY = {"subtract", "true_divide", "floor_divide", "divide", "less", "less_equal", "greater", "greater_equal", "equal", "not_equal"}


def skeletons(op, Rk):
    fam = OP_FAMILY[op]
    if fam == "id":
        return itertools.chain(sk_id(Rk), sk_id_blocks())
    if fam == "reduce":
        return sk_reduce(Rk, op)
    if fam == "elementwise":
        if op == "where":
            return sk_elem(min(Rk, 2), op, nin=3)
        return sk_elem(Rk, op, nin=2)
    if fam == "dot":
        return itertools.chain(sk_dot(Rk), sk_dot3())
    if fam == "get_at":
        return sk_get_at(Rk)
    if fam == "update_at":
        return sk_update_at(Rk, op)
    if fam == "preserve_shape":
        return sk_preserve(Rk, op)
    if fam == "argfind":
        return sk_argfind(Rk, op)
    raise KeyError(op)


# ------------------------------------------------------------------------------------------------ level 2: decorations
def _replace_tensor(d, side, ti, new):
    ins, outs = list(d.ins), list(d.outs)
    (ins if side == 0 else outs)[ti] = tuple(new)
    return d._replace(ins=tuple(ins), outs=tuple(outs))


def _tensors(d):
    for ti, t in enumerate(d.ins):
        yield 0, ti, t
    for ti, t in enumerate(d.outs or ()):
        yield 1, ti, t


def deco_group(d):
    """parentheses around a contiguous run (possibly empty) of top-level items of one tensor"""
    fam = OP_FAMILY[d.op]
    for side, ti, t in _tensors(d):
        n = len(t)
        for i in range(n + 1):
            for j in range(i, n + 1):
                run = t[i:j]
                if any(x[0] in "gc" for x in run):
                    continue
                yield _replace_tensor(d, side, ti, t[:i] + (("g", tuple(run)),) + t[j:])._replace(decos=d.decos + ("group",))


def deco_brjoin(d):
    if d.join:
        return
    for side, ti, t in _tensors(d):
        for i in range(len(t) - 1):
            if t[i][0] in "an" and t[i][2] and t[i + 1][0] in "an" and t[i + 1][2]:
                yield d._replace(join=True, decos=d.decos + ("brjoin",))
                return
        for it in t:
            if it[0] == "g":
                g = it[1]
                for i in range(len(g) - 1):
                    if g[i][0] in "an" and g[i][2] and g[i + 1][0] in "an" and g[i + 1][2]:
                        yield d._replace(join=True, decos=d.decos + ("brjoin",))
                        return


def _map_items(items, f):
    out = []
    for it in items:
        r = f(it)
        if r is not None:
            out.extend(r)
        elif it[0] in "gc":
            out.append((it[0], tuple(_map_items(it[1], f))))
        elif it[0] == "e" and it[1] is not None:
            inner = _map_items([it[1]], f)
            out.append(("e", inner[0], it[2]))
        else:
            out.append(it)
    return tuple(out)


def deco_ell(d, counts=(0, 1, 2)):
    """one axis name written with an ellipsis everywhere it occurs (x... , [x]... , [x...]), or replaced by the anonymous ellipsis"""
    if any(it[0] == "e" for _, _, t in _tensors(d) for it in _walk(t)):
        return
    names = list(dict.fromkeys(n for _, _, t in _tensors(d) for n in names_of(t)))
    for x in names:
        br = any(l[2] for _, _, t in _tensors(d) for l in leaves(t) if l[0] == "a" and l[1] == x)
        for c in counts:
            env = dict(d.env); env[x] = ("ELL", c)
            styles = [False, True] if br else [False]
            for st in styles:
                f = lambda it, x=x, st=st: [("e", it, st)] if it[0] == "a" and it[1] == x else None
                yield d._replace(ins=tuple(_map_items(t, f) for t in d.ins), outs=tuple(_map_items(t, f) for t in d.outs), env=env,
                                 decos=d.decos + ("ell",))
            # anonymous
            env2 = dict(d.env); env2["..."] = ("ELL", c); env2.pop(x, None)
            f = lambda it, x=x, br=br: [("e", None, br)] if it[0] == "a" and it[1] == x else None
            yield d._replace(ins=tuple(_map_items(t, f) for t in d.ins), outs=tuple(_map_items(t, f) for t in d.outs), env=env2,
                             decos=d.decos + ("ell",))


def _walk(items):
    for it in items:
        yield it
        if it[0] in "gc":
            yield from _walk(it[1])
        elif it[0] == "e" and it[1] is not None:
            yield from _walk([it[1]])


def deco_unit_in(d):
    """a length-1 axis that exists only in one input: the literal 1, or a named axis of length 1"""
    for ti, t in enumerate(d.ins):
        for p in range(len(t) + 1):
            yield _replace_tensor(d, 0, ti, t[:p] + (("n", 1, False),) + t[p:])._replace(decos=d.decos + ("unit",))
        if ti == 0:
            for p in range(len(t) + 1):
                env = dict(d.env); env["u"] = 1
                yield _replace_tensor(d, 0, ti, t[:p] + (ax("u"),) + t[p:])._replace(env=env, decos=d.decos + ("unit",))


def deco_bcast_out(d):
    """an axis that exists only in the output: named with a keyword size, or a number"""
    if OP_FAMILY[d.op] in ("update_at",):
        return
    for ti, t in enumerate(d.outs):
        for p in range(len(t) + 1):
            env = dict(d.env); env["z"] = 2
            yield _replace_tensor(d, 1, ti, t[:p] + (ax("z"),) + t[p:])._replace(env=env, decos=d.decos + ("bcast",))
            yield _replace_tensor(d, 1, ti, t[:p] + (("n", 2, False),) + t[p:])._replace(decos=d.decos + ("num",))
            yield _replace_tensor(d, 1, ti, t[:p] + (("n", 1, False),) + t[p:])._replace(decos=d.decos + ("unit",))


def deco_num_in(d):
    """a bracketed input axis written as a number (reduce / preserve / argfind families)"""
    if OP_FAMILY[d.op] not in ("reduce",):
        return
    for ti, t in enumerate(d.ins):
        for p, it in enumerate(t):
            if it[0] == "a" and it[2] and sum(1 for l in leaves(t) if l[1] == it[1]) == 1:
                yield _replace_tensor(d, 0, ti, t[:p] + (("n", 3, True),) + t[p + 1:])._replace(decos=d.decos + ("num",))


def deco_concat(d):
    """id only: concatenation along one top-level axis, on the input side (split) or on the output side (concat)"""
    if d.op != "id" or len(d.ins) != 1 or len(d.outs) != 1:
        return
    (tin,), (tout,) = d.ins, d.outs
    if any(it[0] != "a" for it in tin + tout) or len(set(names_of(tin))) != len(tin):
        return
    for p, it in enumerate(tin):
        x = it[1]
        q = [i for i, o in enumerate(tout) if o[1] == x]
        if len(q) != 1:
            continue
        q = q[0]
        cat = ("c", (ax(x), ax("y")))
        envy = dict(d.env); envy["y"] = 2
        # split: (x + y) ... -> ... x ..., ... y ...
        yield Desc("id", (tin[:p] + (cat,) + tin[p + 1:],), (tout, tout[:q] + (ax("y"),) + tout[q + 1:]), envy, d.join, d.kw, d.decos + ("concat",))
        # concat: two inputs -> one output
        yield Desc("id", (tin, tin[:p] + (ax("y"),) + tin[p + 1:]), (tout[:q] + (cat,) + tout[q + 1:],), envy, d.join, d.kw, d.decos + ("concat",))
        # append a constant row: (x + 1) with a lower-rank second input
        rest_in = tin[:p] + tin[p + 1:]
        yield Desc("id", (tin, rest_in), (tout[:q] + (("c", (ax(x), ("n", 1, False))),) + tout[q + 1:],), d.env, d.join, d.kw, d.decos + ("concat",))
        yield Desc("id", (rest_in, tin), (tout[:q] + (("c", (("n", 1, False), ax(x))),) + tout[q + 1:],), d.env, d.join, d.kw, d.decos + ("concat",))
        # concat of a flattened group: (1 + (x w))
        if len(tin) >= 2 and p + 1 < len(tin):
            pass


DECOS = [deco_group, deco_brjoin, deco_ell, deco_unit_in, deco_bcast_out, deco_num_in, deco_concat]


def decorated(d, k, menu=None):
    """all descriptions reachable from skeleton d with <= k decorations (deduplicated by printed form + env)"""
    menu = menu or DECOS
    seen = {}
    frontier = [d]
    seen[(show(d), repr(sorted(d.env.items())))] = d
    for _ in range(k):
        nxt = []
        for x in frontier:
            for f in menu:
                for y in f(x):
                    key = (show(y), repr(sorted(y.env.items())))
                    if key not in seen:
                        seen[key] = y; nxt.append(y)
        frontier = nxt
    return list(seen.values())


# ------------------------------------------------------------------------------------------------ sizes
PRIMES = [2, 3, 5, 7, 4, 6]
SIZESETS = ["distinct", "all2", "unit0", "unit1", "unit2"]


def assign_sizes(d, sizeset):
    """full environment for the names of d (order of first occurrence). Returns env or None if the size set does not apply."""
    names = list(dict.fromkeys(n for _, _, t in _tensors(d) for n in names_of(t)))
    env = {}
    for i, n in enumerate(names):
        if n in d.env and not (isinstance(d.env[n], tuple) and d.env[n][0] == "ELL"):
            env[n] = d.env[n]
            continue
        if sizeset == "distinct":
            v = PRIMES[i % len(PRIMES)]
        elif sizeset == "all2":
            v = 2
        elif sizeset == "all3":
            v = 3
        elif sizeset in ("x2", "x3"):
            v = PRIMES[i % len(PRIMES)] * int(sizeset[1])
        elif sizeset == "x64":
            v = PRIMES[i % len(PRIMES)] * 64
        else:
            u = int(sizeset[4:])
            if u >= len(names):
                return None
            v = 1 if i == u else PRIMES[i % len(PRIMES)]
        if n in d.env:   # ellipsis axis with count c
            c = d.env[n][1]
            if sizeset == "distinct": v = tuple([v, v + 1, v + 2][:c])
            elif sizeset in ("x2", "x3"): v = tuple(q * int(sizeset[1]) for q in [v // int(sizeset[1]), v // int(sizeset[1]) + 1, v // int(sizeset[1]) + 2][:c])
            elif sizeset == "x64": v = tuple(q * 64 for q in [v // 64, v // 64 + 1, v // 64 + 2][:c])
            else: v = tuple([v] * c)
        env[n] = v
    if "..." in d.env:
        c = d.env["..."][1]
        m = int(sizeset[1:]) if sizeset in ("x2", "x3", "x64") else 1
        base = PRIMES[len(names) % len(PRIMES)] if sizeset in ("distinct", "x2", "x3", "x64") else (3 if sizeset == "all3" else 2)
        env["..."] = tuple(q * m for q in [base, base + 1, base + 2][:c]) if sizeset in ("distinct", "x2", "x3", "x64") else tuple([base] * c)
    return env


def subst_closure(ex, shapes, sizes):
    """names determined by substituting known values one flattened/concatenated axis at a time (completeness clause of C02)"""
    known = {}
    for n in R.walk(ex):
        if isinstance(n, R.Axis):
            base = n.name.split(".")[0]
            if base in sizes:
                v = sizes[base]
                if isinstance(v, tuple):
                    idx = n.name.split(".")[1:]
                    if len(idx) == 1 and int(idx[0]) < len(v):
                        known[n.name] = int(v[int(idx[0])])
                else:
                    known[n.name] = int(v)

    def val(n):
        if isinstance(n, R.Axis): return known.get(n.name)
        if isinstance(n, R.Num): return n.v
        if isinstance(n, R.Par):
            p = 1
            for x in R.flat_items(n.items):
                v = val(x)
                if v is None: return None
                p *= v
            return p
        if isinstance(n, R.Cat):
            s = 0
            for x in n.terms:
                v = val(x)
                if v is None: return None
                s += v
            return s

    def bind(n, v):
        if isinstance(n, R.Axis):
            if n.name not in known:
                known[n.name] = v; return True
            return False
        if isinstance(n, R.Par):
            ch = R.flat_items(n.items)
            unk = [x for x in ch if val(x) is None]
            if len(unk) == 1:
                p = 1
                for x in ch:
                    if x is not unk[0]: p *= val(x)
                if p > 0 and v % p == 0 and v // p > 0:
                    return bind(unk[0], v // p)
            return False
        if isinstance(n, R.Cat):
            unk = [x for x in n.terms if val(x) is None]
            if len(unk) == 1:
                s = sum(val(x) for x in n.terms if x is not unk[0])
                if v - s > 0:
                    return bind(unk[0], v - s)
            return False
        return False

    changed = True
    while changed:
        changed = False
        for t, sh in zip(ex, shapes):
            if sh is None: continue
            for dnode, s in zip(R.flat_items(t), sh):
                if val(dnode) is None and bind(dnode, int(s)):
                    changed = True
    return known


class Call:
    __slots__ = ("op", "desc", "shapes", "sizes", "kw", "env", "decos", "sizeset", "key")

    def __init__(self, op, desc, shapes, sizes, kw, env, decos, sizeset):
        self.op, self.desc, self.shapes, self.sizes, self.kw, self.env, self.decos, self.sizeset = op, desc, shapes, sizes, kw, env, decos, sizeset
        self.key = f"{op}|{desc}|{shapes}|{sorted(sizes.items())}|{sorted(kw.items())}"

    def to_json(self):
        return {"op": self.op, "desc": self.desc, "shapes": [list(s) for s in self.shapes], "sizes": {k: (list(v) if isinstance(v, tuple) else v) for k, v in self.sizes.items()},
                "kw": {k: (list(v) if isinstance(v, tuple) else v) for k, v in self.kw.items()}, "decos": list(self.decos), "sizeset": self.sizeset}

    @staticmethod
    def from_json(j):
        return Call(j["op"], j["desc"], [tuple(s) for s in j["shapes"]], {k: (tuple(v) if isinstance(v, list) else v) for k, v in j["sizes"].items()},
                    {k: (tuple(v) if isinstance(v, list) else v) for k, v in j.get("kw", {}).items()}, None, tuple(j.get("decos", ())), j.get("sizeset"))

    def __repr__(self):
        return f"einx.{self.op}({self.desc!r}, shapes={self.shapes}, {self.sizes}{', ' + str(self.kw) if self.kw else ''})"


def materialize(d, sizeset):
    """Desc + size set -> Call (input shapes, minimal keyword sizes) or None when the size set does not apply / the description
    cannot be given concrete shapes"""
    env = assign_sizes(d, sizeset)
    if env is None:
        return None
    desc = show(d)
    try:
        ins, outs = R.parse(desc)
        shapes, ex, vals = R.shapes_from_env(ins + outs, env)
    except (R.ParseError, R.NoSolution, KeyError, NotImplementedError):
        return None
    in_shapes = shapes[:len(ins)]
    shp = in_shapes + [None] * len(outs)
    # minimal keyword sizes: add names (output-only first) until substitution determines everything
    allnames = [n.name for n in R.walk(ex) if isinstance(n, R.Axis)]
    order = [n for n in env if n != "..."]
    in_names = set(n for t in d.ins for n in names_of(t))
    order.sort(key=lambda n: (n in in_names,))
    sizes = {}
    for cand in [None] + order:
        if cand is not None:
            sizes[cand] = env[cand]
        known = subst_closure(ex, shp, sizes)
        if all(n in known for n in allnames):
            break
    else:
        return None
    kw = dict(d.kw)
    if d.op == "roll":
        nb = sum(1 for n, b in R.leaf_axes(ex[0]) if b)
        kw["shift"] = tuple(range(1, nb + 1)) if nb != 1 else 1
    return Call(d.op, desc, in_shapes, sizes, kw, env, d.decos, sizeset)


def corpus_descs(ops, Rk, k, menu=None):
    """the descriptions themselves (before sizes are chosen), deduplicated by printed form"""
    seen = set()
    for op in ops:
        for sk in skeletons(op, Rk):
            # skeletons with many tensors (block assembly) get at most one decoration: their decorated variants grow with the number of tensors
            for d in decorated(sk, min(k, 1) if len(sk.ins) + len(sk.outs or ()) > 3 else k, menu):
                key = (op, show(d), repr(sorted((a, b) for a, b in d.env.items())))
                if key not in seen:
                    seen.add(key)
                    yield d


def corpus(ops, Rk, k, sizesets=("distinct", "all2"), menu=None, limit=None):
    """deterministic, duplicate-free list of Calls"""
    seen = set()
    out = []
    for op in ops:
        for sk in skeletons(op, Rk):
            for d in decorated(sk, min(k, 1) if len(sk.ins) + len(sk.outs or ()) > 3 else k, menu):
                for ss in sizesets:
                    c = materialize(d, ss)
                    if c is None or c.key in seen:
                        continue
                    seen.add(c.key)
                    out.append(c)
                    if limit and len(out) >= limit:
                        return out
    return out
