"""Stateless schedule exploration for CPython threads (hand-rolled, CHESS style).

Real threading.Thread objects, one baton: every thread owns a semaphore and only the baton holder runs.  Scheduling points are the
`line` events (sys.settrace, per thread) of frames whose code lives in the traced files, plus every acquire of a cooperative lock.
Exploration is depth-first over choice prefixes: replay the prefix, then keep running the current thread (choice 0) to completion; at
every point whose alternatives stay within the pre-emption bound, branch.  "no enabled thread" = deadlock.
"""
import sys, threading, time


class Deadlock(Exception):
    pass


class ReplayDivergence(Exception):
    pass


CURRENT = None      # the scheduler of the execution in progress (None outside explorations)


class CoopLock:
    """re-entrant cooperative lock that yields to the scheduler instead of blocking the OS thread"""

    def __init__(self, sched="current"):
        self._sched = sched; self.owner = None; self.count = 0

    @property
    def sched(self):
        return CURRENT if self._sched == "current" else self._sched

    def acquire(self, blocking=True, timeout=-1):
        s = self.sched
        if s is None or s.cur is None:      # outside an exploration (serial specification runs)
            self.owner = "main"; self.count += 1; return True
        while True:
            s.point()
            if self.owner is None or self.owner == s.cur:
                self.owner = s.cur; self.count += 1
                return True
            s.block_on(self)

    def release(self):
        s = self.sched
        if s is not None and s.cur is not None and self.owner != s.cur:
            raise RuntimeError("cannot release un-acquired lock")      # what threading.RLock does when another thread releases it
        self.count -= 1
        if self.count <= 0:
            self.owner = None; self.count = 0
            if self.sched is not None and self.sched.cur is not None:
                self.sched.unblock(self)

    def __enter__(self):
        self.acquire(); return self

    def __exit__(self, *a):
        self.release()


class CoopEvent:
    """threading.Event whose wait() yields to the scheduler (a waiting thread is 'blocked', not spinning)"""

    def __init__(self):
        self.flag = False

    def is_set(self):
        return self.flag

    def set(self):
        self.flag = True
        s = CURRENT
        if s is not None and s.cur is not None:
            s.unblock(self)

    def clear(self):
        self.flag = False

    def wait(self, timeout=None):
        s = CURRENT
        if s is None or s.cur is None:
            return self.flag
        while True:
            s.point()
            if self.flag:
                return True
            s.block_on(self)


class _ThreadingShim:
    """stands in for the `threading` module inside einx's modules: synchronisation objects created by einx while an exploration runs are
    cooperative; everything else is the real thing"""

    def __getattr__(self, name):
        return getattr(threading, name)

    @staticmethod
    def Lock():
        return CoopLock()

    @staticmethod
    def RLock():
        return CoopLock()

    @staticmethod
    def Event():
        return CoopEvent()


def install_threading_shim(module_prefix="einx"):
    """einx modules that did `import threading` get the shim (objects they created at import time are handled by cooperative())"""
    import sys
    n = 0
    shim = _ThreadingShim()
    for name, mod in list(sys.modules.items()):
        if (name == module_prefix or name.startswith(module_prefix + ".")) and getattr(mod, "threading", None) is threading:
            mod.threading = shim; n += 1
    return n


class Sched:
    def __init__(self, bodies, choices, trace_files, expect=None):
        self.bodies = bodies; self.n = len(bodies)
        self.sem = [threading.Semaphore(0) for _ in bodies]
        self.done = [False] * self.n; self.blocked = [None] * self.n
        self.cur = None
        self.choices = list(choices); self.expect = expect
        self.trace = []        # (enabled tuple in canonical order, chosen index, current-still-enabled?)
        self.results = [None] * self.n
        self.main = threading.Semaphore(0)
        self.trace_files = trace_files
        self.deadlock = False
        self.error = None

    def enabled(self):
        return [i for i in range(self.n) if not self.done[i] and self.blocked[i] is None]

    def pick(self):
        en = self.enabled()
        if not en:
            return None
        cur_enabled = self.cur in en
        if cur_enabled:
            en = [self.cur] + [i for i in en if i != self.cur]
        k = len(self.trace)
        c = self.choices[k] if k < len(self.choices) else 0
        if c >= len(en) or (self.expect is not None and k < len(self.expect) and tuple(self.expect[k]) != tuple(en)):
            self.error = ReplayDivergence(f"at point {k}: enabled {en}, recorded {self.expect[k] if self.expect and k < len(self.expect) else '?'} choice {c}")
            c = 0
        self.trace.append((tuple(en), c, cur_enabled))
        return en[c]

    def switch_to(self, nxt, me):
        if nxt != me:
            self.cur = nxt
            self.sem[nxt].release()
            self.sem[me].acquire()

    def point(self):
        me = self.cur
        nxt = self.pick()
        self.switch_to(nxt, me)

    def block_on(self, obj):
        me = self.cur
        self.blocked[me] = obj
        nxt = self.pick()
        if nxt is None:
            self.deadlock = True
            self.blocked[me] = None
            raise Deadlock()
        self.switch_to(nxt, me)

    def unblock(self, obj):
        for i in range(self.n):
            if self.blocked[i] is obj:
                self.blocked[i] = None

    def _global_trace(self, frame, event, arg):
        if frame.f_code.co_filename in self.trace_files:
            return self._local_trace
        return None

    def _local_trace(self, frame, event, arg):
        if event == "line":
            self.point()
        return self._local_trace

    def _run_thread(self, i):
        self.sem[i].acquire()
        sys.settrace(self._global_trace)
        try:
            self.results[i] = ("ok", self.bodies[i]())
        except Deadlock:
            self.results[i] = ("deadlock",)
        except BaseException as e:  # noqa
            self.results[i] = ("exc", type(e).__name__, str(e)[:120])
        finally:
            sys.settrace(None)
        self.done[i] = True
        nxt = self.pick() if self.enabled() else None
        if nxt is None:
            if any(not d for d in self.done):
                self.deadlock = True
                # wake blocked threads so that they can terminate
                for j in range(self.n):
                    if not self.done[j] and self.blocked[j] is not None:
                        pass
            self.main.release()
        else:
            self.cur = nxt
            self.sem[nxt].release()

    def run(self, watchdog=60.0):
        ths = [threading.Thread(target=self._run_thread, args=(i,), daemon=True) for i in range(self.n)]
        for t in ths:
            t.start()
        first = self.pick()
        self.cur = first
        self.sem[first].release()
        if not self.main.acquire(timeout=watchdog):
            raise RuntimeError("harness error: scheduled thread did not come back (blocked on an unmanaged lock?)")
        self.cur = None
        if not self.deadlock:
            for t in ths:
                t.join(timeout=watchdog)
        return self.results


def preemptions(trace, upto=None):
    upto = len(trace) if upto is None else upto
    return sum(1 for (en, c, cur_en) in trace[:upto] if c > 0 and cur_en)


def children(trace, prefix_len, bound):
    """alternative prefixes branching off one execution (after position prefix_len), within the pre-emption bound"""
    out = []
    pre = preemptions(trace, prefix_len)
    for i in range(prefix_len, len(trace)):
        en, c, cur_en = trace[i]
        if len(en) > 1:
            cost = pre + (1 if cur_en else 0)
            if cost <= bound:
                for alt in range(1, len(en)):
                    out.append(([t[1] for t in trace[:i]] + [alt], [t[0] for t in trace[:i + 1]]))
        if c > 0 and cur_en:
            pre += 1
    return out


def explore(run_once, bound, root=None, max_exec=None):
    """run_once(choices, expect) -> (trace, observation).  DFS below `root` (choices, expect).  Yields (choices, trace, observation)."""
    stack = [root or ([], [])]
    n = 0
    while stack:
        choices, expect = stack.pop()
        trace, obs = run_once(choices, expect)
        n += 1
        yield choices, trace, obs
        if max_exec and n >= max_exec:
            return
        stack.extend(children(trace, len(choices), bound))


def cooperative(lock, sched_):
    """a cooperative stand-in for whatever lock object einx uses: a primitive Lock/RLock becomes a CoopLock; any other lock-like object is
    copied and the primitive locks among its attributes are replaced, so that the object's own locking logic is executed (and pre-empted)"""
    import copy
    import _thread
    prim = (_thread.LockType, _thread.RLock)
    if isinstance(lock, (CoopLock,) + prim):
        return CoopLock(sched_)
    new = copy.copy(lock)
    for k, v in list(vars(new).items()):
        if isinstance(v, (CoopLock,) + prim):
            setattr(new, k, CoopLock(sched_))
    return new
