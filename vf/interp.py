"""Reference interpreter for einx's graph IR (independent of the code generator and of compiler/run.py), plus capture of the
(graph before optimisation, graph after, compiled function, source text) of real calls.

Evaluation is demand driven from the graph output; every application is evaluated exactly once per scope; additional dependencies are
evaluated before the call that carries them.  Scoping rule for nested graphs: a node that does not depend on the nested graph's own inputs
belongs to the enclosing scope (evaluated once there), a node that does is evaluated per call of the closure.
"""
import importlib, builtins, operator
import numpy as np

OPS = {"+": operator.add, "*": operator.mul, "-": operator.sub, "==": operator.eq, "!=": operator.ne, "<": operator.lt, "<=": operator.le, ">": operator.gt,
       ">=": operator.ge}
UPD = {"=": lambda o, k, v: o.__setitem__(k, v), "+=": lambda o, k, v: o.__setitem__(k, o[k] + v), "-=": lambda o, k, v: o.__setitem__(k, o[k] - v)}


class Interp:
    def __init__(self, parent=None, own_inputs=()):
        self.val = {}
        self.parent = parent
        self.own_inputs = list(own_inputs)
        self.nodes = 0
        self._dep = {}

    def depends_on_own(self, x):
        """does tracer x depend on one of this scope's graph inputs?"""
        import einx._src.tracer as tracer
        if not isinstance(x, tracer.Tracer):
            return False
        k = id(x)
        if k in self._dep:
            return self._dep[k]
        if any(x is i for i in self.own_inputs):
            r = True
        elif x.origin is None:
            r = False
        else:
            r = any(self._dep_any(i) for i in x.origin.inputs)
        self._dep[k] = r
        return r

    def _dep_any(self, x):
        import einx._src.tracer as tracer
        if isinstance(x, tracer.Tracer):
            return self.depends_on_own(x)
        if isinstance(x, (list, tuple)):
            return any(self._dep_any(i) for i in x)
        if isinstance(x, dict):
            return any(self._dep_any(i) for i in list(x.keys()) + list(x.values()))
        if isinstance(x, tracer.Graph):
            return self._dep_any(x.output)     # conservative: a nested graph that uses our inputs depends on them
        if isinstance(x, slice):
            return any(self._dep_any(i) for i in (x.start, x.stop, x.step))
        return False

    def lookup(self, x):
        s = self
        while s is not None:
            if id(x) in s.val:
                return True, s.val[id(x)]
            s = s.parent
        return False, None

    def ev(self, x):
        import einx._src.tracer as tracer
        from einx._src.tracer.signature import python as P
        from einx._src.util import pytree
        if isinstance(x, (str, int, float, bool, np.integer, np.floating)) or x is None:
            return x
        if isinstance(x, np.ndarray):
            return x
        if isinstance(x, list):
            return [self.ev(i) for i in x]
        if isinstance(x, tuple):
            return tuple(self.ev(i) for i in x)
        if isinstance(x, dict):
            return {self.ev(k): self.ev(v) for k, v in x.items()}
        if isinstance(x, slice):
            return slice(self.ev(x.start), self.ev(x.stop), self.ev(x.step))
        found, v = self.lookup(x)
        if found:
            return v
        if isinstance(x, tracer.Graph):
            if self.parent is not None and not self._dep_any(x.output):
                return self.parent.ev(x)
            g = x
            outer = self

            def f(*args):
                if len(args) != len(g.inputs):
                    raise ValueError("arity")
                sub = Interp(parent=outer, own_inputs=g.inputs)
                for i, a in zip(g.inputs, args):
                    sub.val[id(i)] = a
                r = sub.ev(g.output)
                outer.nodes += sub.nodes
                return r
            self.val[id(x)] = f
            return f
        assert isinstance(x, tracer.Tracer), type(x)
        if self.parent is not None and not self.depends_on_own(x):
            return self.parent.ev(x)
        o = x.origin
        assert o is not None, "graph input without a value"
        self.nodes += 1
        if isinstance(o, P.Call):
            for d in o.additional_dependencies:
                self.ev(d)
            fn = self.ev(o.function)
            r = fn(*[self.ev(a) for a in o.args], **{k: self.ev(v) for k, v in o.kwargs.items()})
        elif isinstance(o, P.CallInplace):
            for d in o.additional_dependencies:
                self.ev(d)
            xs = self.ev(o.xs)
            fn = self.ev(o.function)
            fn(*[self.ev(a) for a in o.args], **{k: self.ev(v) for k, v in o.kwargs.items()})
            r = xs
        elif isinstance(o, P.GetAttr):
            r = getattr(self.ev(o.obj), o.key)
        elif isinstance(o, P.GetItem):
            r = self.ev(o.obj)[self.ev(o.key)]
        elif isinstance(o, P.UpdateItem):
            obj = self.ev(o.obj); key = self.ev(o.key); value = self.ev(o.value)
            UPD[o.op](obj, key, value)
            r = obj
        elif isinstance(o, P.Import):
            r = importlib.import_module(o.import_) if o.from_ is None else getattr(importlib.import_module(o.from_), o.import_)
        elif isinstance(o, P.OperatorApplication):
            r = OPS[o.operator](*[self.ev(a) for a in o.operands])
        elif isinstance(o, P.Builtin):
            r = getattr(builtins, o.name)
        elif isinstance(o, P.Constant):
            r = o.value
        elif isinstance(o, P.Assert):
            c = self.ev(o.condition)
            assert c, o.message
            r = self.ev(o.xs)
        elif isinstance(o, tracer.Cast):
            r = self.ev(o.input)
        else:
            raise NotImplementedError(type(o))
        out = o.output
        if isinstance(out, tracer.Tracer):
            self.val[id(out)] = r
        else:
            flat_t = list(pytree.flatten(out))
            flat_v = list(_flatten_like(out, r))
            for t, v in zip(flat_t, flat_v):
                self.val[id(t)] = v
        found, v = self.lookup(x)
        assert found
        return v


def _flatten_like(struct, value):
    if isinstance(struct, (list, tuple)):
        value = list(value)
        assert len(value) == len(struct), "arity of a structured cast"
        for s, v in zip(struct, value):
            yield from _flatten_like(s, v)
    elif isinstance(struct, dict):
        for k in struct:
            yield from _flatten_like(struct[k], value[k])
    else:
        yield value


def run_graph(g, args):
    import einx._src.tracer as tracer
    if not isinstance(g, tracer.Graph):
        # the optimiser may replace a whole graph by the function it wraps (InlineGraph): evaluate the object, then call it
        it = Interp()
        f = it.ev(g)
        return f(*args), it.nodes
    it = Interp(own_inputs=g.inputs)
    assert len(args) == len(g.inputs)
    for i, a in zip(g.inputs, args):
        it.val[id(i)] = a
    return it.ev(g.output), it.nodes


# ------------------------------------------------------------------------------------------------ capture
class Capture:
    """records (graph before optimisation, graph after, compiled function, code) of every compilation while active"""

    def __init__(self):
        self.records = []

    def __enter__(self):
        import einx._src.tracer as tracer
        self.tracer = tracer
        self._opt = tracer.optimize
        self._comp = tracer.compiler.python.compile
        self.passes = 0
        cap = self

        def opt(graph, optimizations):
            import einx._src.tracer.optimizer.optimizer as O
            orig_init = O.Optimizer.__init__
            count = [0]

            def init(s, *a, **k):
                count[0] += 1
                return orig_init(s, *a, **k)
            O.Optimizer.__init__ = init
            try:
                g2 = cap._opt(graph, optimizations=optimizations)
            finally:
                O.Optimizer.__init__ = orig_init
            cap.records.append({"before": graph, "after": g2, "passes": count[0], "optimizations": optimizations})
            return g2

        def comp(obj, return_code=False):
            r = cap._comp(obj, return_code=return_code)
            if cap.records and "fn" not in cap.records[-1] and cap.records[-1]["after"] is obj:
                cap.records[-1]["fn"], cap.records[-1]["code"] = (r if return_code else (r, None))
            return r
        tracer.optimize = opt
        tracer.compiler.python.compile = comp
        return self

    def __exit__(self, *a):
        self.tracer.optimize = self._opt
        self.tracer.compiler.python.compile = self._comp
        return False


def constants_of(graph):
    """all Constant applications reachable from a graph (for exec of the generated text in an empty namespace)"""
    import einx._src.tracer as tracer
    from einx._src.tracer.signature import python as P
    seen = set(); out = []

    def rec(x):
        if isinstance(x, (list, tuple)):
            for i in x: rec(i)
        elif isinstance(x, dict):
            for k, v in x.items(): rec(k); rec(v)
        elif isinstance(x, slice):
            rec(x.start); rec(x.stop); rec(x.step)
        elif isinstance(x, tracer.Graph):
            if id(x) in seen: return
            seen.add(id(x)); rec(x.output)
        elif isinstance(x, tracer.Tracer):
            if id(x) in seen: return
            seen.add(id(x))
            if x.origin is not None:
                if isinstance(x.origin, P.Constant): out.append(x.origin.value)
                for i in x.origin.inputs: rec(i)
                if isinstance(x.origin, (P.Call, P.CallInplace)):
                    rec(x.origin.additional_dependencies)
    rec(graph)
    return out


def exec_text(code, graph, name="op"):
    """execute the generated text in an EMPTY namespace plus exactly the constants named in its header comments; returns the function"""
    import re
    consts = constants_of(graph)
    ns = {}
    for m in re.finditer(r"^# Constant (const\d+): (.*)$", code, re.M):
        cname, text = m.group(1), m.group(2)
        cands = [c for c in consts if str(c).replace("\n", " ") == text]
        if not cands:
            raise KeyError(f"constant {cname} listed in the header has no counterpart in the graph: {text[:80]}")
        ns[cname] = cands[0]
    exec(code, ns, ns)
    return ns[name]
