#!/bin/bash
# usage: tools/seedrun.sh <seeded/NAME> <CHECK-ID>...   applies the seeded change to /repo, runs the given checks (quick), reverts.
d="$1"; shift
cd /repo || exit 2
if [ -n "$(git status --porcelain)" ]; then echo "/repo not clean"; exit 2; fi
git apply "/verif/$d/patch.diff" || { echo "$d APPLY-FAILED"; exit 2; }
cd /verif
for c in "$@"; do
  out=$(VERIF_MAX_REPORT=3 ./check $c --tier ${TIER:-quick} 2>&1); rc=$?
  echo "$(date +%F_%T) $d $c exit=$rc" >> /verif/seeded/results.log
  echo "SEEDRUN $d $c exit=$rc $(echo "$out" | grep -c '^VIOLATION') violation-lines; $(echo "$out" | grep -m1 -A1 '^VIOLATION' | tail -1 | cut -c1-220)"
done
git -C /repo checkout -- . ; git -C /repo status --porcelain
