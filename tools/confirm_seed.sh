#!/bin/bash
# usage: tools/confirm_seed.sh <seed_dir> ; confirms in a scratch worktree of /repo HEAD: patch applies, demo fails with it and
# passes without it, the repository's test suite still passes with it.  Prints one summary line.
d="$1"; name=$(echo "$d" | tr '/' '_')
wt=/tmp/wtc_$$
git -C /repo worktree add --detach "$wt" HEAD >/dev/null 2>&1 || { echo "$d worktree-failed"; exit 2; }
cd "$wt"
PYTHONPATH="$wt" timeout 600 /venv/bin/python "$d/demo.py" >/tmp/cs_$$.pre 2>&1; pre=$?
if ! git apply "$d/patch.diff" 2>/tmp/cs_$$.apply; then echo "$d APPLY-FAILED $(head -c 200 /tmp/cs_$$.apply)"; git -C /repo worktree remove --force "$wt"; exit 1; fi
PYTHONPATH="$wt" timeout 600 /venv/bin/python "$d/demo.py" >/tmp/cs_$$.post 2>&1; post=$?
suite=$(timeout 1500 /venv/bin/python -m pytest -q -p no:cacheprovider --timeout=900 test 2>&1 | tail -1)
git checkout -- . ; 
cd /; git -C /repo worktree remove --force "$wt"
echo "$d demo_pristine=$pre demo_mutated=$post suite='$suite'"
rm -f /tmp/cs_$$.*
