#!/usr/bin/env python3-vt
"""Validate MANIFEST.json and every evidence file against the schemas in /root/.vp (run with python3-vt: needs jsonschema)."""
import json, sys, glob, os
import jsonschema
root = os.path.dirname(os.path.dirname(os.path.abspath(__file__)))
ok = True
def check(path, schema):
    global ok
    try:
        jsonschema.validate(json.load(open(path)), json.load(open(schema)))
        print("valid  ", path)
    except Exception as e:
        ok = False
        print("INVALID", path, str(e)[:300])
check(os.path.join(root, "MANIFEST.json"), "/root/.vp/MANIFEST.schema.json")
man = json.load(open(os.path.join(root, "MANIFEST.json")))
for c in man["checks"]:
    p = os.path.join(root, c["evidence_file"])
    if os.path.exists(p):
        check(p, "/root/.vp/EVIDENCE.schema.json")
        ev = json.load(open(p))
        if ev["level"] != c["level_claimed"]["category"]:
            ok = False; print("LEVEL MISMATCH", p, ev["level"], c["level_claimed"]["category"])
    else:
        print("missing", p)
props = [json.loads(l)["id"] for l in open(os.path.join(root, "properties.jsonl"))]
claimed = {c["property_id"] for c in man["checks"]}; na = {n["property_id"] for n in man.get("not_applicable", [])}
for p in props:
    if p not in claimed and p not in na:
        ok = False; print("UNACCOUNTED property", p)
sys.exit(0 if ok else 1)
