#!/usr/bin/env python3
"""Builds the table of seeded changes for DESIGN.md section 7 from seeded/*/meta.json and seeded/results.log (last run per (seed, check))."""
import json, glob, os, re, collections
root = os.path.dirname(os.path.dirname(os.path.abspath(__file__)))
last = {}
for line in open(os.path.join(root, "seeded", "results.log")):
    m = re.match(r"(\S+) seeded/(\S+) (\S+) exit=(\d+)", line)
    if m: last[(m.group(2), m.group(3))] = int(m.group(4))
rows = []
for d in sorted(glob.glob(os.path.join(root, "seeded", "*", "meta.json"))):
    name = os.path.basename(os.path.dirname(d)); m = json.load(open(d))
    runs = {c: e for (s, c), e in last.items() if s == name}
    caught = sorted(c for c, e in runs.items() if e == 1); missed = sorted(c for c, e in runs.items() if e == 0)
    summ = re.sub(r"\s+", " ", m.get("summary", ""))[:230].replace("|", "/")
    status = "void (see meta.json)" if m.get("void") else (("caught by " + ", ".join(caught)) if caught else "NOT caught") + ((" (silent: " + ", ".join(missed) + ")") if missed and caught else "")
    rows.append(f"| {name} | {m.get('property')} | {summ} | {status}{' [adapted]' if m.get('adapted') else ''} |")
print("| seeded change | property | what it does | result (quick tier) |\n|---|---|---|---|")
print("\n".join(rows))
