#!/usr/bin/env python3
"""Prints a markdown table of what the last run of every check covered (from evidence/*.json)."""
import json, glob, os
root = os.path.dirname(os.path.dirname(os.path.abspath(__file__)))
print("| check | tier | level | wall s | what was covered (numbers measured by the run) |\n|---|---|---|---|---|")
for f in sorted(glob.glob(os.path.join(root, "evidence", "C*.json"))):
    ev = json.load(open(f)); c = ev["coverage"]
    nums = {k: v for k, v in c.items() if isinstance(v, (int, float)) and not isinstance(v, bool)}
    txt = ", ".join(f"{k}={v}" for k, v in list(nums.items())[:9])
    print(f"| {ev['property_id']} | {ev['tier']} | {ev['level']} | {ev['wall_s']:.0f} | {txt} |")
