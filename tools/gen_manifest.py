#!/usr/bin/env python3
"""Regenerates MANIFEST.json from the table below (so that it stays schema-valid and in step with the checks that exist)."""
import json, os
root = os.path.dirname(os.path.dirname(os.path.abspath(__file__)))

LIMITS = ("Only numpy, numpy.numpylike and numpy.einsum are importable here; torch/jax/mlx/tensorflow/tinygrad/arrayapi lowering code is not executed. "
          "Oracles are hand-written from the documentation; where it is silent the case is left out of the alphabet. ")

CHECKS = {
    "C01": dict(
        level="exploration",
        text="Bounded exhaustive enumeration of calls (all skeletons up to rank R per operation family x all <= k notation decorations x size sets) through the real "
             "public entry points on all three numpy backends, each result compared element by element with an independent loop-notation evaluator (RefSem). "
             "This is the right level because the property quantifies over the description language: small-scope exhaustive exploration reaches every pair of "
             "notation features at sizes where a mis-routed element is visible.",
        note="Tensor contents are chosen (injective / exact small integers), not enumerated; rank <= 4, <= 3 decorations; RefSem is written from the documentation and "
             "self-tested against its examples before each run. " + LIMITS,
        technique="bounded exhaustive enumeration of calls, differential against a reference loop interpreter",
        design="4/C01"),
    "C02": dict(
        level="exploration",
        text="Every expression list over a finite atom menu x every ground truth x every subset of the available information x every single corruption goes through "
             "solve_shapes, matches and solve_axes and is compared with a brute-force solver that returns exactly the set of satisfying assignments (soundness, "
             "ambiguity, substitution-completeness); a second alphabet checks exact arithmetic beyond 2**31.",
        note="Expressions of <= 2 atoms (3 lists in thorough), lengths <= 4, ellipsis repetitions 0..3; quantities >= 2**62 are left out (no such tensor can exist). " + LIMITS,
        technique="bounded exhaustive enumeration of solver inputs, differential against a brute-force reference solver",
        design="4/C02"),
    "C14": dict(
        level="exploration",
        text="All update_at skeletons (+ decorations) x set_at/add_at/subtract_at x ALL in-range coordinate tensors (duplicates included) when there are <= CAP "
             "assignments, compared with the explicit read-modify-write loop; every set_at result is read back with get_at.",
        note="Target/update contents chosen per seed; coordinates in range; for set_at any competing value is accepted at a multiply addressed element. " + LIMITS,
        technique="bounded exhaustive enumeration of descriptions and coordinate tensors, differential against an explicit loop",
        design="4/C14"),
    "C06": dict(
        level="model_checking",
        text="History exploration: ALL call sequences up to the length bound over an alphabet of ~70 calls built to collide under Python hashing/equality (2 / 2.0 / True, "
             "list / tuple / array, array / scalar / factory / temporary factories of different signature) and to fail at every stage, each executed on a pristine einx "
             "(package removed from sys.modules and re-imported). After every history the outcome of the last call must equal its outcome as the only call, which must "
             "equal its outcome in a really fresh interpreter; tracer dependency stack and with-stack must be empty.",
        note="Length <= 2 over the full alphabet (quick), + length 3 over a 20-call sub-alphabet and EINX_CACHE_SIZE in {unset,0,1} (thorough). Third-party state is not reset by re-import; "
             "covered by the fresh-interpreter references. " + LIMITS,
        technique="exhaustive enumeration of bounded call histories on a re-imported implementation, differential against the single-call / fresh-interpreter outcome",
        design="4/C06"),
    "C10": dict(
        level="model_checking",
        text="Stateless schedule exploration of real threads under a cooperative scheduler (hand-rolled, CHESS style): for 16 small thread programs (with-blocks, calls, "
             "first-time compilation, get_by_name, register, first-use lookup of a lazily registered framework; 2-3 threads) every schedule with at most k pre-emptions "
             "(k iterated per program, scheduling point before every source line of einx's registry/api/cache/tracing files and at every lock acquire) is executed on the "
             "real code and its observation must be produced by some serial interleaving of the same operations (brute-force linearizability).",
        note="CPython with GIL; pre-emption granularity = source line in the traced files; k<=2 for the short registry programs, k<=1 for programs with >600 scheduling points; "
             "no free-running race detector exists for Python to complement this. " + LIMITS,
        technique="pre-emption-bounded exhaustive schedule exploration (stateless model checking) of the implementation with a linearizability oracle",
        design="4/C10"),
    "C03": dict(
        level="exploration",
        text="Three exhaustive families through every public entry point: all token strings up to the length bound; every single-edit corruption of every valid corpus call "
             "(dimension, rank, tensor count, size keywords, one axis dropped/duplicated/renamed/bracketed, delimiters, arrows, commas, explicit sizes + rank/tuple-length errors); a "
             "table of documented rules. No call may end in an internal exception type; calls that are ill-formed by an unambiguous criterion must raise a documented class with an "
             "empty log of backend calls (tensors are ndarray subclasses that log every numpy API use).",
        note="The ill-formedness criterion is deliberately narrow (RefSem parser / brute-force solver / tensor count / size type / rule table) so that lenient acceptance is never "
             "called a violation. " + LIMITS,
        technique="bounded exhaustive enumeration of token strings and single-edit corruptions through the real entry points with an instrumented tensor type",
        design="4/C03"),
    "C04": dict(
        level="translation_validation",
        text="Every compilation captured from the corpus calls and ALL well-typed IR programs up to K instructions over a menu of node kinds (built with the tracer's own "
             "constructors, operands from any earlier value): the returned text is checked statically, executed in an empty namespace plus the constants its header lists, and "
             "compared with the compiled function and with an independent node-by-node interpreter on results, mutable cells and the multiset of logged elementary calls.",
        note="K<=2 over the full menu and K<=3 over a reduced menu (quick); nested definitions only arise in the synthetic programs (no vmap backend importable). " + LIMITS,
        technique="exhaustive enumeration of small IR programs + captured real graphs, three-way comparison text / compiled function / reference interpreter",
        design="4/C04"),
    "C05": dict(
        level="translation_validation",
        text="Before/after graph pairs captured from every corpus call plus all synthetic chains of transposes (every pair of permutations up to rank 4/5, triples up to rank 3), "
             "reshapes (all triples over ordered factorizations of 12 and 24), broadcasts, concatenations and mixed no-op chains, each with three sharing variants; both graphs are "
             "interpreted on injective contents (C- and Fortran-ordered) and must agree on outputs, dtypes, shapes and in-place effects; pass count bounded; re-optimisation is a no-op.",
        note="Only the optimisation list of the numpy backends; contents injective with pairwise distinct lengths. " + LIMITS,
        technique="exhaustive enumeration of rewrite-pattern chains + captured real graphs, before/after comparison with a reference interpreter",
        design="4/C05"),
    "C07": dict(
        level="exploration",
        text="For each documented shorthand (omitted output, automatic brackets, numbers, anonymous ellipsis, written-out ellipsis, scalar size for an ellipsis axis, nested '->', "
             "adjacent brackets, keepdims, unit coordinate bracket, extra blanks, rearrange) every corpus description to which it applies is called in the short and in the documented "
             "long form on identical data; outcomes must be equal (values bytes-equal, same exception class).",
        note="Long forms are produced by rewrites written from the documentation and applied only where the documented equivalence literally applies. " + LIMITS,
        technique="bounded exhaustive enumeration of descriptions, metamorphic comparison of short and long form",
        design="4/C07"),
    "C08": dict(
        level="exploration",
        text="For every corpus call on two backends: three renamings, every admissible permutation of each input's items (tensor transposed), every admissible output permutation, "
             "every grouping of adjacent un-bracketed items (tensor reshaped); for id all 28 expressions over a=2,b=3,c=2 give all ordered pairs (inversion) and all triples "
             "(composition), plus split/concat pairs. Oracle-free: only the stated relations between outcomes.",
        note="Integer contents; update_at targets are excluded from the permutation relations. " + LIMITS,
        technique="bounded exhaustive enumeration with metamorphic relations (renaming, permutation, regrouping, inversion, composition)",
        design="4/C08"),
    "C09": dict(
        level="exploration",
        text="Every corpus call x backend x argument position x memory layout (C, Fortran-ordered view, strided view, negative-stride view, broadcast view, read-only) with byte/shape/"
             "strides/dtype/flags snapshots of every argument, of the base of views and of size/option containers before and after; graph=True, solve_*/matches/check, adapters and "
             "element-wise calls with 1-4 tensors included. Only the first tensor of *_at may change; a read-only non-target argument must not even make the call fail.",
        note="Contents chosen per seed; dtypes int64/float64/bool. " + LIMITS,
        technique="bounded exhaustive enumeration of calls x layouts x positions with before/after snapshots",
        design="4/C09"),
    "C13": dict(
        level="model_checking",
        text="For one operation per family and the small corpus: every argument position x 6 factory signatures x 5 behaviours (+ builtin), larger subsets with representative "
             "variants; graph=True, first call and cached repeat; and all histories of length <= 3 over {call, graph=True, rejected call, ordinary-tensor call, other factory} from "
             "empty compile caches. The invocation log must show exactly one invocation per executed call with the resolved tuple-of-int shape and only declared keywords.",
        note="Caches are emptied through cache_clear() of every operation; factories return exactly the array of the ordinary call. " + LIMITS,
        technique="exhaustive enumeration of factory variants and bounded call histories with an invocation-log oracle",
        design="4/C13"),
    "C15": dict(
        level="exploration",
        text="Instrumented user functions (reduce-style / element-wise, with keyword-only options, five kinds of misbehaviour) wrapped by the numpy adapters x the reduce and element-wise "
             "corpus, compared with RefSem using the same function; recorded arguments; all histories of <= 2-3 calls over keyword values {2, 2.0, 3, True}; functions sharing module "
             "and qualified name in every adaptation order; axis/keyword name clashes.",
        note="adapt_with_vmap does not exist for numpy and is out of reach. " + LIMITS,
        technique="bounded exhaustive enumeration of adapted calls and short keyword histories, differential against the reference loop semantics",
        design="4/C15"),
    "C16": dict(
        level="model_checking",
        text="(A) the corpus runs in one interpreter per PYTHONHASHSEED (own uuid draws), digests must agree; (B) with the compile cache disabled repeated graph=True requests and "
             "executions must agree; (C) exhaustive exploration of the orders in which einx consumes unordered collections through a guarded hook (every permutation for <= 4 "
             "elements, else reversal/rotations/transpositions), candidates are reported only after a real hash-seed pair reproduces them.",
        note="Hooked sites: solver equation list, CSE candidates; address-dependent names (id()) vary only through the separate processes. " + LIMITS,
        technique="exhaustive exploration of order choices at hooked choice points + whole-process replay under several hash seeds",
        design="4/C16"),
    "C17": dict(
        level="exploration",
        text="Every corpus description is compiled (graph=True) under every pair of size assignments from {distinct primes, x2, all-2, x3, all-3} (none with a unit axis) on three "
             "backends; the AST must contain only whitelisted straight-line node types, and the two ASTs of a pair must be equal after blanking integer literals, with equal Call counts.",
        note="Numeric literals of the description are part of the description; quick uses three of the five assignments. " + LIMITS,
        technique="bounded exhaustive enumeration of descriptions x size-assignment pairs with AST comparison",
        design="4/C17"),
    "C11": dict(
        level="model_checking",
        text="Explicit-state breadth-first search over event histories (register, register_on_import with healthy/failing factories, module import, every lookup form, "
             "enter/exit) executed on fresh instances of the real BackendRegistry with synthetic backends; states deduplicated by a canonical form of every registry "
             "field; every lookup after every reachable history is compared with a reference precedence function; plus the same precedence probed on the real global "
             "registry. All reachable states within the depth bound are covered, which is what 'does not depend on registration order or earlier lookups' needs.",
        note="Depth bound 6 (quick) / 7 (thorough); 7 synthetic backends in 3 frameworks; tensors of a framework only after its module is imported; distinct backend names. " + LIMITS,
        technique="explicit-state BFS over the real registry transition functions with canonical-state deduplication, reference precedence model checked on every transition",
        design="4/C11"),
    "C12": dict(
        level="exploration",
        text="Bounded exhaustive input enumeration of the real parser: every token sequence up to the length bound over the notation's alphabet, "
             "every string of <= 2 printable characters, every redundant-blank insertion and the print/re-parse round trip of each, and every accepted "
             "string through one public operation per family. Totality, message shape, spacing invariance and round trip are checked on each element; "
             "nothing inside the bound is sampled.",
        note="Two names and one number stand for all names/numbers; termination = 10 s per parse. " + LIMITS,
        technique="bounded exhaustive enumeration of token strings through the real parser (small-scope model checking of inputs)",
        design="4/C12"),
}

PENDING_REASON = "check not built yet in this revision of /verif (planned, see DESIGN.md section 4)"


def main():
    props = [json.loads(l) for l in open(os.path.join(root, "properties.jsonl"))]
    checks = []
    for p in props:
        pid = p["id"]
        if pid not in CHECKS:
            continue
        c = CHECKS[pid]
        checks.append({
            "property_id": pid,
            "quick_cmd": f"./check {pid} --tier quick",
            "thorough_cmd": f"./check {pid} --tier thorough",
            "evidence_file": f"evidence/{pid}.json",
            "replay_cmd_template": f"./check {pid} --replay {{path}}",
            "engine": c.get("engine", "vf"),
            "level_claimed": {"category": c["level"], "text": c["text"], "design_ref": "DESIGN.md section " + c["design"]},
            "level_note": c["note"],
            "technique": c["technique"],
        })
    man = {
        "version": 1,
        "setup_cmd": "/venv/bin/python -m compileall -q vf tools >/dev/null 2>&1; test -x ./check",
        "hooks": {
            "guard": "FFERFLO_EINX_VERIF",
            "enable": "environment variable FFERFLO_EINX_VERIF=1 (exported by ./check); einx is an editable install of /repo, nothing is built",
            "baseline_off_cmd": "cd /repo && env -u FFERFLO_EINX_VERIF /venv/bin/python -m pytest -ra -q -p no:cacheprovider --timeout=900 --continue-on-collection-errors",
            "source_commits": HOOK_COMMITS,
            "add_only": True,
        },
        "engines": [{"name": "vf", "path": "vf/", "serves_properties": [c["property_id"] for c in checks],
                     "kind_free_text": "hand-written explicit-state / bounded-exhaustive explorers in Python running the real einx code "
                                       "(input enumeration, history BFS on re-imported einx, pre-emption-bounded thread scheduler, choice-point exploration)"}],
        "checks": checks,
        "not_applicable": [{"property_id": p["id"], "reason": PENDING_REASON} for p in props if p["id"] not in CHECKS],
        "notes": "Run with /venv/bin/python (via ./check). Exit 0 = held (KNOWN-FINDING lines allowed), 1 = VIOLATION, 2 = harness error. "
                 "known_findings.jsonl is never written at run time.",
    }
    json.dump(man, open(os.path.join(root, "MANIFEST.json"), "w"), indent=1)
    print("MANIFEST.json:", len(checks), "checks,", len(man["not_applicable"]), "not claimed")


HOOK_COMMITS = ["b3eb7c1"]

if __name__ == "__main__":
    main()
